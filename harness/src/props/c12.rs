//! C12 - building expressions in a context preserves their meaning; the same
//! expression built twice is the same node; import(export(n)) == n;
//! structurally equal trees hash equally; deep trees can be built, compared,
//! hashed, imported, exported and dropped on a small stack.
//!
//! Oracle for values: `Prog::eval_ref` (independent opcode model) on the
//! UN-REWRITTEN program vs `Context::eval` on the node produced by (a) the
//! `Context` constructors, (b) `Tree` operators + `Context::import`, (c)
//! `Context::from_text`, compared with `same_val` whenever every reference
//! intermediate in the cone of the node is finite and no reference zero
//! (other than a bare variable) feeds atan2 / rand / mix / recip / div-rhs.
use crate::gen_::prog::{self, Bin, GenCfg, Inputs, PNode, Prog, Un};
use crate::monitor::child;
use crate::util::{Rng, Stats, Tier, fbits, guarded, same_val};
use crate::{Mode, Prop};
use fidget_core::context::{BinaryOpcode, Context, Node, Op, Tree, TreeOp};
use fidget_core::var::Var;
use serde_json::{Value, json};
use std::collections::HashMap;
use std::hash::{BuildHasher, BuildHasherDefault};
use std::sync::Arc;

pub struct C12;

/// one case in 61 (quick) / 487 (thorough) is a deep-tree case; primes, so
/// that the deep cases spread evenly over the 16 shards
fn deep_every(tier: Tier) -> u64 {
    tier.pick(61, 487)
}

fn deep_index(case: u64, tier: Tier) -> Option<u64> {
    let every = deep_every(tier);
    (case % every == every - 1).then_some(case / every)
}
/// trees larger than this (expanded, i.e. counted as trees not DAGs) are not
/// compared / hashed (both walk the expansion)
const MAX_EXPANDED: u64 = 4000;

type DetHasher = BuildHasherDefault<std::collections::hash_map::DefaultHasher>;

fn hash_tree(t: &Tree) -> u64 {
    DetHasher::default().hash_one(t)
}

/// Structurally identical copy in which every node is a fresh allocation and
/// nothing is shared (the DAG is expanded; callers bound the expansion)
fn unshared(t: &fidget_core::context::TreeOp) -> std::sync::Arc<fidget_core::context::TreeOp> {
    use fidget_core::context::TreeOp;
    use std::sync::Arc;
    Arc::new(match t {
        TreeOp::Input(v) => TreeOp::Input(*v),
        TreeOp::Const(c) => TreeOp::Const(*c),
        TreeOp::Unary(o, a) => TreeOp::Unary(*o, unshared(a)),
        TreeOp::Binary(o, a, b) => TreeOp::Binary(*o, unshared(a), unshared(b)),
        TreeOp::RemapAxes { target, x, y, z } => TreeOp::RemapAxes { target: unshared(target), x: unshared(x), y: unshared(y), z: unshared(z) },
        TreeOp::RemapAffine { target, mat } => TreeOp::RemapAffine { target: unshared(target), mat: *mat },
    })
}

////////////////////////////////////////////////////////////////////////////////
// Building through the constructors (same calls as Prog::build, but into an
// existing context so that the program can be built twice)

fn apply_un(ctx: &mut Context, op: Un, a: Node) -> Node {
    match op {
        Un::Neg => ctx.neg(a),
        Un::Abs => ctx.abs(a),
        Un::Recip => ctx.recip(a),
        Un::Sqrt => ctx.sqrt(a),
        Un::Square => ctx.square(a),
        Un::Floor => ctx.floor(a),
        Un::Ceil => ctx.ceil(a),
        Un::Round => ctx.round(a),
        Un::Sin => ctx.sin(a),
        Un::Cos => ctx.cos(a),
        Un::Tan => ctx.tan(a),
        Un::Asin => ctx.asin(a),
        Un::Acos => ctx.acos(a),
        Un::Atan => ctx.atan(a),
        Un::Exp => ctx.exp(a),
        Un::Ln => ctx.ln(a),
        Un::Not => ctx.not(a),
        Un::Rand => ctx.rand(a),
    }
    .unwrap()
}

fn apply_bin(ctx: &mut Context, op: Bin, a: Node, b: Node) -> Node {
    match op {
        Bin::Add => ctx.add(a, b),
        Bin::Sub => ctx.sub(a, b),
        Bin::Mul => ctx.mul(a, b),
        Bin::Div => ctx.div(a, b),
        Bin::Atan2 => ctx.atan2(a, b),
        Bin::Min => ctx.min(a, b),
        Bin::Max => ctx.max(a, b),
        Bin::Compare => ctx.compare(a, b),
        Bin::Mod => ctx.modulo(a, b),
        Bin::And => ctx.and(a, b),
        Bin::Or => ctx.or(a, b),
        Bin::Mix => ctx.mix(a, b),
    }
    .unwrap()
}

/// Observational classification of what a constructor did: facts about the
/// operands (`pre`) and the shape of the result (`outcome`)
fn record_bin_rule(
    st: &mut Stats,
    ctx: &Context,
    op: Bin,
    a: Node,
    b: Node,
    out: Node,
    len_before: usize,
) {
    let ca = ctx.get_const(a).ok();
    let cb = ctx.get_const(b).ok();
    let k = |c: f32, side: &str| {
        if c == 0.0 {
            format!("{side}0")
        } else if c == 1.0 {
            format!("{side}1")
        } else {
            format!("{side}c")
        }
    };
    let pre = match (ca, cb) {
        (Some(_), Some(_)) => "cc".to_string(),
        _ if a == b => "same".to_string(),
        (Some(c), None) => k(c, "l"),
        (None, Some(c)) => k(c, "r"),
        (None, None) => "rr".to_string(),
    };
    let outcome = if out == a && out == b {
        "operand".to_string()
    } else if out == a {
        "lhs".to_string()
    } else if out == b {
        "rhs".to_string()
    } else {
        match ctx.get_op(out) {
            Some(Op::Const(_)) => "const".to_string(),
            Some(Op::Input(_)) => "input".to_string(),
            Some(Op::Unary(o, _)) => format!("un_{o:?}"),
            Some(Op::Binary(o, l, r)) => {
                let ord = if (*l, *r) == (a, b) {
                    "kept"
                } else if (*l, *r) == (b, a) {
                    "swapped"
                } else {
                    "other"
                };
                format!("{o:?}_{ord}")
            }
            None => "badnode".to_string(),
        }
    };
    st.inc(&format!("rule_{}|{pre}|{outcome}", op.name()));
    if ctx.len() == len_before && out != a && out != b {
        st.inc("rule_dedup_existing_node");
    }
}

fn record_un_rule(
    st: &mut Stats,
    ctx: &Context,
    op: Un,
    a: Node,
    out: Node,
    len_before: usize,
) {
    let pre = if ctx.get_const(a).is_ok() { "c" } else { "r" };
    let outcome = match ctx.get_op(out) {
        Some(Op::Const(_)) => "const",
        Some(Op::Unary(..)) => "unary",
        _ => "other",
    };
    st.inc(&format!("rule_un_{}|{pre}|{outcome}", op.name()));
    if ctx.len() == len_before && out != a && pre == "r" {
        st.inc("rule_dedup_existing_node");
    }
}

fn build_into(
    ctx: &mut Context,
    p: &Prog,
    vars: &[Var],
    mut st: Option<&mut Stats>,
) -> Vec<Node> {
    let mut nodes: Vec<Node> = Vec::with_capacity(p.nodes.len());
    for n in &p.nodes {
        let before = ctx.len();
        let node = match *n {
            PNode::Var(i) => ctx.var(vars[i as usize]),
            PNode::Const(c) => ctx.constant(c),
            PNode::Un(op, a) => {
                let a = nodes[a as usize];
                let out = apply_un(ctx, op, a);
                if let Some(st) = st.as_deref_mut() {
                    record_un_rule(st, ctx, op, a, out, before);
                }
                out
            }
            PNode::Bin(op, a, b) => {
                let (a, b) = (nodes[a as usize], nodes[b as usize]);
                let out = apply_bin(ctx, op, a, b);
                if let Some(st) = st.as_deref_mut() {
                    record_bin_rule(st, ctx, op, a, b, out, before);
                }
                out
            }
        };
        nodes.push(node);
    }
    nodes
}

////////////////////////////////////////////////////////////////////////////////
// Reference analysis of the un-rewritten program at one input

struct RefInfo {
    vals: Vec<f32>,
    /// every reference value in the cone of the node is finite
    finite: Vec<bool>,
    /// no reference zero (other than a bare variable) in the cone feeds a
    /// zero-sign-sensitive operation
    sign_ok: Vec<bool>,
}

fn analyse(p: &Prog, input: &[f32]) -> RefInfo {
    let vals = p.eval_ref(input);
    let n = p.nodes.len();
    let mut finite = vec![false; n];
    let mut sign_ok = vec![false; n];
    for (i, nd) in p.nodes.iter().enumerate() {
        let zero_op = |k: u32| {
            vals[k as usize] == 0.0
                && !matches!(p.nodes[k as usize], PNode::Var(_))
        };
        let (kids_fin, kids_sign, sens) = match *nd {
            PNode::Var(_) | PNode::Const(_) => (true, true, false),
            PNode::Un(o, a) => (
                finite[a as usize],
                sign_ok[a as usize],
                matches!(o, Un::Rand | Un::Recip) && zero_op(a),
            ),
            PNode::Bin(o, a, b) => (
                finite[a as usize] && finite[b as usize],
                sign_ok[a as usize] && sign_ok[b as usize],
                match o {
                    Bin::Atan2 | Bin::Mix => zero_op(a) || zero_op(b),
                    Bin::Div => zero_op(b),
                    _ => false,
                },
            ),
        };
        finite[i] = kids_fin && vals[i].is_finite();
        sign_ok[i] = kids_sign && !sens;
    }
    RefInfo {
        vals,
        finite,
        sign_ok,
    }
}

fn class(v: f32) -> &'static str {
    if v.is_nan() {
        "nan"
    } else if v == 0.0 {
        if v.is_sign_negative() { "-0" } else { "+0" }
    } else if v.is_infinite() {
        "inf"
    } else if v == 1.0 {
        "1"
    } else if v.abs() < f32::MIN_POSITIVE {
        "denorm"
    } else {
        "normal"
    }
}

/// `with_values`: also classify the run-time values of non-constant operands
/// (for the human summary; signatures only name operand kinds and constants)
fn describe_node(p: &Prog, i: usize, r: &[f32], with_values: bool) -> String {
    let d = |k: u32| match p.nodes[k as usize] {
        PNode::Const(c) => format!("const({})", class(c)),
        PNode::Var(_) if with_values => format!("var({})", class(r[k as usize])),
        PNode::Var(_) => "var".to_string(),
        _ if with_values => format!("reg({})", class(r[k as usize])),
        _ => "reg".to_string(),
    };
    match p.nodes[i] {
        PNode::Var(_) => "var".into(),
        PNode::Const(_) => "const".into(),
        PNode::Un(o, a) => format!("{}:{}", o.name(), d(a)),
        PNode::Bin(o, a, b) => format!(
            "{}:{},{}{}",
            o.name(),
            d(a),
            d(b),
            if a == b { ":same" } else { "" }
        ),
    }
}

fn cone_members(p: &Prog, target: usize) -> Vec<bool> {
    let mut keep = vec![false; p.nodes.len()];
    keep[target] = true;
    for i in (0..=target).rev() {
        if !keep[i] {
            continue;
        }
        match p.nodes[i] {
            PNode::Un(_, a) => keep[a as usize] = true,
            PNode::Bin(_, a, b) => {
                keep[a as usize] = true;
                keep[b as usize] = true;
            }
            _ => (),
        }
    }
    keep
}

/// Sub-program consisting of the cone of `target` (for small witnesses)
fn cone_prog(p: &Prog, target: usize) -> Prog {
    let keep = cone_members(p, target);
    let mut map = vec![u32::MAX; p.nodes.len()];
    let mut nodes = vec![];
    for i in 0..=target {
        if keep[i] {
            map[i] = nodes.len() as u32;
            nodes.push(match p.nodes[i] {
                PNode::Un(o, a) => PNode::Un(o, map[a as usize]),
                PNode::Bin(o, a, b) => {
                    PNode::Bin(o, map[a as usize], map[b as usize])
                }
                n => n,
            });
        }
    }
    let out = (nodes.len() - 1) as u32;
    Prog {
        nodes,
        n_vars: p.n_vars,
        outputs: vec![out],
    }
}

struct Bad {
    node: usize,
    input: usize,
    got: f32,
    ctx_op: String,
}

/// Compares `Context::eval` of the given nodes with the reference. `nodes[i]`
/// is the context node claimed to mean program node `i` (None = not built).
/// Returns the first mismatch; Err = `Context::eval` failed.
#[allow(clippy::too_many_arguments)]
fn first_bad(
    way: &str,
    p: &Prog,
    ctx: &Context,
    nodes: &[Option<Node>],
    vars: &[Var],
    inputs: &[Vec<f32>],
    infos: &[RefInfo],
    st: &mut Stats,
    count: bool,
) -> Result<Option<Bad>, String> {
    for (k, input) in inputs.iter().enumerate() {
        let info = &infos[k];
        let vm: HashMap<Var, f32> =
            vars.iter().zip(input.iter()).map(|(v, x)| (*v, *x)).collect();
        let mut cache: HashMap<Node, f32> = HashMap::new();
        for (i, node) in nodes.iter().enumerate() {
            let Some(node) = *node else { continue };
            if matches!(p.nodes[i], PNode::Var(_) | PNode::Const(_)) {
                continue;
            }
            if !info.finite[i] {
                if count {
                    st.inc("skipped_reference_not_finite_throughout");
                }
                continue;
            }
            if !info.sign_ok[i] {
                if count {
                    st.inc("skipped_zero_feeds_sign_sensitive_op");
                }
                continue;
            }
            let got = match cache.get(&node) {
                Some(v) => *v,
                None => {
                    let v = ctx
                        .eval(node, &vm)
                        .map_err(|e| format!("node {i}: {e}"))?;
                    cache.insert(node, v);
                    v
                }
            };
            if count {
                st.inc(&format!("value_comparisons_{way}"));
            }
            if !same_val(got, info.vals[i]) {
                return Ok(Some(Bad {
                    node: i,
                    input: k,
                    got,
                    ctx_op: format!("{:?}", ctx.get_op(node)),
                }));
            }
        }
    }
    Ok(None)
}

#[allow(clippy::too_many_arguments)]
fn report_bad(
    way: &str,
    case: u64,
    p: &Prog,
    bad: &Bad,
    inputs: &[Vec<f32>],
    infos: &[RefInfo],
    st: &mut Stats,
    sig: Option<String>,
    extra: Value,
) {
    let info = &infos[bad.input];
    let input = &inputs[bad.input];
    let i = bad.node;
    let (got, want) = (bad.got, info.vals[i]);
    let desc = describe_node(p, i, &info.vals, true);
    let sig = sig.unwrap_or_else(|| describe_node(p, i, &info.vals, false));
    let small = cone_prog(p, i);
    st.violation(
        case,
        format!("value:{way}:{sig}"),
        format!(
            "node built via {way} evaluates to {got:?}, the un-rewritten expression (finite throughout) to {want:?}; first differing node: {desc}"
        ),
        json!({
            "way": way, "node": i, "got": fbits(got), "want": fbits(want),
            "context_op": bad.ctx_op,
            "inputs_by_var_slot": input.iter().map(|v| fbits(*v)).collect::<Vec<_>>(),
            "cone_program": small.to_json(),
            "reference_values_of_cone": small.eval_ref(input).iter().map(|v| fbits(*v)).collect::<Vec<_>>(),
            "full_program": if p.nodes.len() <= 60 { p.to_json() } else { json!("(large)") },
            "extra": extra,
        }),
    );
}

/// first_bad + report; false after reporting a mismatch
#[allow(clippy::too_many_arguments)]
fn check_values(
    way: &str,
    case: u64,
    p: &Prog,
    ctx: &Context,
    nodes: &[Option<Node>],
    vars: &[Var],
    inputs: &[Vec<f32>],
    infos: &[RefInfo],
    st: &mut Stats,
    extra: &dyn Fn() -> Value,
) -> bool {
    match first_bad(way, p, ctx, nodes, vars, inputs, infos, st, true) {
        Ok(None) => true,
        Ok(Some(bad)) => {
            report_bad(way, case, p, &bad, inputs, infos, st, None, extra());
            false
        }
        Err(e) => {
            st.violation(
                case,
                format!("eval_error:{way}"),
                format!("Context::eval failed on a built node: {e}"),
                json!({"way": way, "program": p.to_json(), "extra": extra()}),
            );
            false
        }
    }
}

////////////////////////////////////////////////////////////////////////////////
// Building as free-floating `Tree`s (operators and methods)

fn tree_un(op: Un, a: &Tree, alt: bool) -> Tree {
    match op {
        Un::Neg => {
            if alt {
                -a.clone()
            } else {
                a.neg()
            }
        }
        Un::Abs => a.abs(),
        Un::Recip => a.recip(),
        Un::Sqrt => a.sqrt(),
        Un::Square => a.square(),
        Un::Floor => a.floor(),
        Un::Ceil => a.ceil(),
        Un::Round => a.round(),
        Un::Sin => a.sin(),
        Un::Cos => a.cos(),
        Un::Tan => a.tan(),
        Un::Asin => a.asin(),
        Un::Acos => a.acos(),
        Un::Atan => a.atan(),
        Un::Exp => a.exp(),
        Un::Ln => a.ln(),
        Un::Not => a.not(),
        Un::Rand => a.rand(),
    }
}

/// `lc` / `rc`: the operand is a constant that may be passed as a bare f32;
/// `form` selects among the equivalent spellings of the API
fn tree_bin(
    op: Bin,
    a: &Tree,
    b: &Tree,
    lc: Option<f32>,
    rc: Option<f32>,
    form: usize,
) -> Tree {
    match op {
        Bin::Add | Bin::Sub | Bin::Mul | Bin::Div => {
            macro_rules! arith {
                ($o:tt, $oa:tt) => {{
                    match (form % 4, lc, rc) {
                        (1, _, Some(c)) => a.clone() $o c,
                        (1, Some(c), None) => c $o b.clone(),
                        (2, _, _) => {
                            let mut t = a.clone();
                            t $oa b.clone();
                            t
                        }
                        (3, _, Some(c)) => {
                            let mut t = a.clone();
                            t $oa c;
                            t
                        }
                        _ => a.clone() $o b.clone(),
                    }
                }};
            }
            match op {
                Bin::Add => arith!(+, +=),
                Bin::Sub => arith!(-, -=),
                Bin::Mul => arith!(*, *=),
                _ => arith!(/, /=),
            }
        }
        _ => {
            macro_rules! meth {
                ($m:ident) => {
                    match (form % 2, rc) {
                        (1, Some(c)) => a.$m(c),
                        _ => a.$m(b.clone()),
                    }
                };
            }
            match op {
                Bin::Atan2 => meth!(atan2),
                Bin::Min => meth!(min),
                Bin::Max => meth!(max),
                Bin::Compare => meth!(compare),
                Bin::Mod => meth!(modulo),
                Bin::And => meth!(and),
                Bin::Or => meth!(or),
                _ => meth!(mix),
            }
        }
    }
}

/// `perturb`: replace constants by `OrderedFloat`-equal ones of different bit
/// pattern (0.0 <-> -0.0, other NaN payload)
fn build_trees(p: &Prog, vars: &[Var], rng: &mut Rng, perturb: bool) -> Vec<Tree> {
    let mut ts: Vec<Tree> = Vec::with_capacity(p.nodes.len());
    let konst = |k: u32| match p.nodes[k as usize] {
        PNode::Const(c) if !perturb => Some(c),
        _ => None,
    };
    for n in &p.nodes {
        let t = match *n {
            PNode::Var(0) => Tree::x(),
            PNode::Var(1) => Tree::y(),
            PNode::Var(2) => Tree::z(),
            PNode::Var(i) => Tree::from(vars[i as usize]),
            PNode::Const(c) => {
                let c = if !perturb {
                    c
                } else if c == 0.0 {
                    -c
                } else if c.is_nan() {
                    f32::from_bits(c.to_bits() ^ 0x0000_1234)
                } else {
                    c
                };
                if rng.chance(0.5) {
                    Tree::constant(c)
                } else {
                    Tree::from(c)
                }
            }
            PNode::Un(o, a) => tree_un(o, &ts[a as usize], rng.chance(0.5)),
            PNode::Bin(o, a, b) => tree_bin(
                o,
                &ts[a as usize],
                &ts[b as usize],
                konst(a),
                konst(b),
                rng.below(8),
            ),
        };
        ts.push(t);
    }
    ts
}

/// Size of each node's expansion as a tree (saturating)
fn expanded_sizes(p: &Prog) -> Vec<u64> {
    let mut s: Vec<u64> = Vec::with_capacity(p.nodes.len());
    for n in &p.nodes {
        s.push(match *n {
            PNode::Un(_, a) => s[a as usize].saturating_add(1),
            PNode::Bin(_, a, b) => {
                s[a as usize].saturating_add(s[b as usize]).saturating_add(1)
            }
            _ => 1,
        });
    }
    s
}

////////////////////////////////////////////////////////////////////////////////
// Text listings in the format documented at `Context::from_text`:
// `<id> <opcode> <args..>`, '#' comments and empty lines ignored; opcodes
// const / var-x / var-y / var-z / unary names / binary names (there is no
// `recip` opcode: 1/a is written `div <const 1> a`, which has the same
// operation-by-operation meaning)

fn fmt_const(c: f32, style: usize) -> String {
    match style % 4 {
        0 => format!("{c:?}"),
        1 => format!("{c}"),
        2 => format!("{c:e}"),
        _ => format!("{:?}", c as f64),
    }
}

/// None when the cone uses a variable other than X, Y, Z
fn text_listing(p: &Prog, target: usize, rng: &mut Rng) -> Option<String> {
    let cone = cone_prog(p, target);
    let style = rng.below(3);
    let base = 0x6000_00b9_0000u64 + (rng.below(1000) as u64) * 0x1000;
    let id = |i: usize| match style {
        0 => format!("0x{:x}", base + 0x50 * i as u64),
        1 => format!("n{i}"),
        _ => format!("_{:x}", i * 7 + 3),
    };
    let mut out = String::new();
    if rng.chance(0.5) {
        out.push_str("# generated listing\n");
    }
    let mut extra = cone.nodes.len();
    for (i, n) in cone.nodes.iter().enumerate() {
        if rng.chance(0.05) {
            out.push('\n');
        }
        if rng.chance(0.05) {
            out.push_str("# comment\n");
        }
        match *n {
            PNode::Var(0) => out.push_str(&format!("{} var-x\n", id(i))),
            PNode::Var(1) => out.push_str(&format!("{} var-y\n", id(i))),
            PNode::Var(2) => out.push_str(&format!("{} var-z\n", id(i))),
            PNode::Var(_) => return None,
            PNode::Const(c) => out.push_str(&format!(
                "{} const {}\n",
                id(i),
                fmt_const(c, rng.below(4))
            )),
            PNode::Un(Un::Recip, a) => {
                let one = id(extra);
                extra += 1;
                out.push_str(&format!("{one} const 1\n"));
                out.push_str(&format!(
                    "{} div {one} {}\n",
                    id(i),
                    id(a as usize)
                ));
            }
            PNode::Un(o, a) => out.push_str(&format!(
                "{} {} {}\n",
                id(i),
                o.name(),
                id(a as usize)
            )),
            PNode::Bin(o, a, b) => out.push_str(&format!(
                "{} {} {} {}\n",
                id(i),
                o.name(),
                id(a as usize),
                id(b as usize)
            )),
        }
    }
    Some(out)
}

////////////////////////////////////////////////////////////////////////////////
// Workloads

/// Program aimed at the rewrite rules: special constants on either side,
/// `x op x`, and consumers of the rewritten node
fn focused_prog(rng: &mut Rng) -> Prog {
    let mut cfg = GenCfg::new(rng.below(8));
    cfg.n_vars = if rng.chance(0.6) { 3 } else { 3 + rng.below(4) };
    cfg.const_p = 0.3;
    let mut p = prog::generate(rng, &cfg);
    let focus_ops = [
        Bin::Add,
        Bin::Sub,
        Bin::Mul,
        Bin::Div,
        Bin::Min,
        Bin::Max,
        Bin::And,
        Bin::Or,
    ];
    let k = 1 + rng.below(5);
    for _ in 0..k {
        let op = if rng.chance(0.85) {
            *rng.pick(&focus_ops)
        } else {
            *rng.pick(&prog::BINS)
        };
        let operand = |p: &mut Prog, rng: &mut Rng| -> u32 {
            let c = match rng.below(13) {
                0..=4 => return rng.below(p.nodes.len()) as u32,
                5 => return (p.nodes.len() - 1) as u32,
                6 => 0.0,
                7 => -0.0,
                8 | 9 => 1.0,
                10 => *rng.pick(&[2.0f32, -1.0, 0.5, 3.0]),
                11 => prog::gen_const(rng, prog::Consts::Hostile),
                _ => prog::gen_const(rng, prog::Consts::Tame),
            };
            p.nodes.push(PNode::Const(c));
            (p.nodes.len() - 1) as u32
        };
        let a = operand(&mut p, rng);
        let b = if rng.chance(0.15) {
            a
        } else {
            operand(&mut p, rng)
        };
        p.nodes.push(PNode::Bin(op, a, b));
        let new = (p.nodes.len() - 1) as u32;
        // consumers: the rewritten node is then shared
        for _ in 0..rng.below(3) {
            let other = rng.below(p.nodes.len()) as u32;
            let n = match rng.below(3) {
                0 => PNode::Un(*rng.pick(&prog::UNS), new),
                1 => PNode::Bin(*rng.pick(&prog::BINS), new, other),
                _ => PNode::Bin(*rng.pick(&prog::BINS), other, new),
            };
            p.nodes.push(n);
        }
    }
    p.outputs = vec![(p.nodes.len() - 1) as u32];
    p
}

fn gen_inputs_for(p: &Prog, rng: &mut Rng, n: usize) -> Vec<Vec<f32>> {
    (0..n)
        .map(|i| {
            let kind = match i % 4 {
                0 => Inputs::Hostile,
                1 => Inputs::Tame,
                2 => Inputs::FiniteWide,
                _ => {
                    if p.nodes.len() < 16 {
                        Inputs::Special
                    } else {
                        Inputs::Tame
                    }
                }
            };
            prog::gen_inputs(rng, p.n_vars, kind)
        })
        .collect()
}

fn panic_violation(
    st: &mut Stats,
    case: u64,
    what: &str,
    pi: &crate::util::PanicInfo,
    p: &Prog,
) {
    if pi.in_repo() {
        st.violation(
            case,
            format!("panic:{what}:{}:{}", pi.site(), pi.msg_class()),
            format!("fidget panicked during {what} at {}: {}", pi.site(), pi.msg),
            json!({"step": what, "panic_site": pi.site(), "message": pi.msg,
                   "program": if p.nodes.len() <= 80 { p.to_json() } else { json!("(large)") }}),
        );
    } else {
        st.inconclusive.push(format!(
            "harness error in case {case} during {what}: {}:{} {}",
            pi.file, pi.line, pi.msg
        ));
    }
}

fn node_kind(ctx: &Context, n: Node) -> String {
    match ctx.get_op(n) {
        Some(Op::Input(_)) => "input".into(),
        Some(Op::Const(_)) => "const".into(),
        Some(Op::Unary(o, _)) => format!("{o:?}"),
        Some(Op::Binary(o, ..)) => format!("{o:?}"),
        None => "badnode".into(),
    }
}

/// Walks an exported tree next to the context graph and counts whether nodes
/// reached twice are the same allocation (observation only; sharing is not
/// part of the statement)
fn observe_sharing(ctx: &Context, n: Node, t: &Tree, st: &mut Stats) {
    let mut seen: HashMap<Node, *const TreeOp> = HashMap::new();
    let mut todo: Vec<(Node, &TreeOp)> = vec![(n, &**t)];
    let mut steps = 0;
    while let Some((n, t)) = todo.pop() {
        steps += 1;
        if steps > 50_000 {
            st.inc("export_sharing_walk_cut");
            return;
        }
        let ptr = t as *const TreeOp;
        if let Some(prev) = seen.get(&n) {
            if *prev == ptr {
                st.inc("export_shared_node_same_allocation");
            } else {
                st.inc("export_shared_node_duplicated");
            }
            continue;
        }
        seen.insert(n, ptr);
        match (ctx.get_op(n), t) {
            (Some(Op::Unary(_, a)), TreeOp::Unary(_, ta)) => {
                todo.push((*a, ta.as_ref()))
            }
            (Some(Op::Binary(_, a, b)), TreeOp::Binary(_, ta, tb)) => {
                todo.push((*a, ta.as_ref()));
                todo.push((*b, tb.as_ref()));
            }
            _ => (),
        }
    }
}

fn semantic_case(case: u64, p: &Prog, rng: &mut Rng, st: &mut Stats, kind: &str) {
    st.distinct(p.hash());
    st.inc(&format!("programs_{kind}"));
    let vars = prog::fresh_vars(p.n_vars);
    let inputs = gen_inputs_for(p, rng, 16);
    let infos: Vec<RefInfo> = inputs.iter().map(|v| analyse(p, v)).collect();
    let n = p.nodes.len();
    let none = || json!(null);

    // (1a) constructors, (2) dedup
    let mut ctx = Context::new();
    if rng.chance(0.25) {
        // a recycled context: an unrelated program is built first, then the
        // context is cleared ("all handles from this context are invalidated")
        // and everything below happens in the second generation
        let pre = focused_prog(rng);
        let pre_vars = prog::fresh_vars(pre.n_vars);
        if guarded(|| build_into(&mut ctx, &pre, &pre_vars, None)).is_err() {
            return;
        }
        ctx.clear();
        st.inc("programs_built_in_a_cleared_context");
    }
    let built = match guarded(|| build_into(&mut ctx, p, &vars, Some(&mut *st))) {
        Ok(b) => b,
        Err(pi) => return panic_violation(st, case, "constructors", &pi, p),
    };
    st.sample(|| {
        json!({"kind": kind, "program": p.to_json(),
               "input0": inputs[0].iter().map(|v| format!("{v:?}")).collect::<Vec<_>>(),
               "reference0": infos[0].vals.iter().map(|v| format!("{v:?}")).collect::<Vec<_>>(),
               "context_ops": built.iter().map(|b| format!("{:?}", ctx.get_op(*b))).collect::<Vec<_>>()})
    });
    let some: Vec<Option<Node>> = built.iter().map(|b| Some(*b)).collect();
    let r = guarded(|| {
        check_values("ctor", case, p, &ctx, &some, &vars, &inputs, &infos, st, &none)
    });
    match r {
        Ok(true) => (),
        Ok(false) => return,
        Err(pi) => return panic_violation(st, case, "Context::eval", &pi, p),
    }
    // (1a') the compound constructor if_nonzero_else(c, a, b) ("if c is
    // non-zero, a, else b" - also what the derivative of min/max/and/or/mod
    // is built from) on operand triples drawn from the program's own nodes
    for _ in 0..(if n >= 3 { 3 } else { 0 }) {
        let (c, a, b) = (rng.below(n), rng.below(n), rng.below(n));
        let node = match guarded(|| ctx.if_nonzero_else(built[c], built[a], built[b])) {
            Ok(Ok(node)) => node,
            Ok(Err(_)) => continue,
            Err(pi) => return panic_violation(st, case, "if_nonzero_else", &pi, p),
        };
        for (k, inp) in inputs.iter().enumerate() {
            let info = &infos[k];
            if !(info.finite[c] && info.finite[a] && info.finite[b] && info.sign_ok[c] && info.sign_ok[a] && info.sign_ok[b]) {
                continue;
            }
            let want = if info.vals[c] != 0.0 { info.vals[a] } else { info.vals[b] };
            let map: HashMap<Var, f32> = vars.iter().copied().zip(inp.iter().copied()).collect();
            let Ok(got) = ctx.eval(node, &map) else { continue };
            st.inc("value_comparisons_if_nonzero_else");
            // (up to the sign of zero, as everywhere in this property)
            if !(got == want || (got.is_nan() && want.is_nan())) {
                st.violation(
                    case,
                    "value:ctor:if_nonzero_else".to_string(),
                    format!("if_nonzero_else(c, a, b) evaluates to {got:?} where c = {:?}, a = {:?}, b = {:?}", info.vals[c], info.vals[a], info.vals[b]),
                    json!({"program": p.to_json(), "c": c, "a": a, "b": b, "input": inp.iter().map(|v| format!("{v:?}")).collect::<Vec<_>>()}),
                );
                return;
            }
        }
    }
    let len1 = ctx.len();
    let again = build_into(&mut ctx, p, &vars, None);
    st.add("dedup_nodes_rebuilt", n as u64);
    if ctx.len() != len1 {
        st.inc("dedup_rebuild_grew_context");
    }
    if let Some(i) = (0..n).find(|&i| again[i] != built[i]) {
        let sig = match p.nodes[i] {
            PNode::Un(o, _) => o.name(),
            PNode::Bin(o, ..) => o.name(),
            PNode::Var(_) => "var",
            PNode::Const(_) => "const",
        };
        st.violation(
            case,
            format!("dedup:{sig}"),
            format!("the same expression built twice in one context gave two nodes (program node {i}, {sig})"),
            json!({"node": i, "first": format!("{:?}", built[i]), "second": format!("{:?}", again[i]),
                   "first_op": format!("{:?}", ctx.get_op(built[i])), "second_op": format!("{:?}", ctx.get_op(again[i])),
                   "program": cone_prog(p, i).to_json()}),
        );
        return;
    }

    // (3) import(export(n)) == n for every node
    let sizes = expanded_sizes(p);
    let mut done: HashMap<Node, ()> = HashMap::new();
    for i in 0..n {
        let nd = built[i];
        if done.insert(nd, ()).is_some() {
            continue;
        }
        let r = guarded(|| {
            let t = ctx.export(nd).unwrap();
            let back = ctx.import(&t);
            (t, back)
        });
        let (t, back) = match r {
            Ok(x) => x,
            Err(pi) => return panic_violation(st, case, "export/import", &pi, p),
        };
        st.inc("import_export_roundtrips");
        if back != nd {
            let k = node_kind(&ctx, nd);
            st.violation(
                case,
                format!("import_export:{k}"),
                format!("import(export(n)) != n for a {k} node"),
                json!({"node": i, "n": format!("{nd:?}"), "n_op": format!("{:?}", ctx.get_op(nd)),
                       "back": format!("{back:?}"), "back_op": format!("{:?}", ctx.get_op(back)),
                       "program": cone_prog(p, i).to_json()}),
            );
            return;
        }
        if p.outputs.contains(&(i as u32)) {
            observe_sharing(&ctx, nd, &t, st);
            // two exports of one node: structurally equal by construction
            if sizes[i] <= MAX_EXPANDED {
                let t2 = ctx.export(nd).unwrap();
                if t == t2 {
                    st.inc("tree_pairs_equal");
                    if hash_tree(&t) != hash_tree(&t2) {
                        st.violation(case, "hash:exported_twice", "two exports of one node compare equal but hash differently",
                            json!({"program": cone_prog(p, i).to_json()}));
                        return;
                    }
                } else {
                    st.inc("export_twice_compares_unequal");
                }
            }
        }
    }

    // (1b) Tree operators + import; Eq / Hash
    let t1 = build_trees(p, &vars, rng, false);
    let t2 = build_trees(p, &vars, rng, false);
    let t3 = build_trees(p, &vars, rng, true);
    let mut picks: Vec<usize> = p.outputs.iter().map(|o| *o as usize).collect();
    for _ in 0..3 {
        picks.push(rng.below(n));
    }
    for &i in &picks {
        if sizes[i] > MAX_EXPANDED {
            st.inc("tree_eq_hash_skipped_large_expansion");
            continue;
        }
        let h1 = hash_tree(&t1[i]);
        let listing = || cone_prog(p, i).to_json();
        // same program built twice, separately allocated
        st.inc("tree_pairs_structurally_equal");
        if t1[i] != t2[i] {
            st.violation(case, "tree_eq:rebuilt_unequal", "two separately built, structurally identical trees compare unequal", json!({"program": listing()}));
            return;
        }
        if h1 != hash_tree(&t2[i]) {
            st.violation(case, "hash:rebuilt", "two separately built, structurally identical trees hash differently", json!({"program": listing()}));
            return;
        }
        // the same tree without any sharing of sub-trees: equal, so it must
        // hash equally (equality is structural, whatever is shared in memory)
        if sizes[i] <= 600 {
            let u: Tree = {
                let arc = unshared(unsafe { &*t1[i].as_ptr() });
                // Tree: From<TreeOp> wraps a fresh Arc; rebuild the root node
                match std::sync::Arc::try_unwrap(arc) {
                    Ok(op) => Tree::from(op),
                    Err(_) => unreachable!(),
                }
            };
            st.inc("tree_pairs_shared_vs_unshared");
            if u != t1[i] {
                st.violation(case, "tree_eq:unshared_unequal", "a tree and its copy without shared sub-trees compare unequal", json!({"program": listing()}));
                return;
            }
            if hash_tree(&u) != h1 {
                st.violation(case, "hash:sharing_dependent", "a tree and its structurally equal copy without shared sub-trees hash differently", json!({"program": listing()}));
                return;
            }
        }
        let c = t1[i].clone();
        if c != t1[i] || hash_tree(&c) != h1 {
            st.violation(case, "hash:clone", "a tree and its clone differ in == or hash", json!({"program": listing()}));
            return;
        }
        // constants replaced by OrderedFloat-equal ones
        if t1[i] == t3[i] {
            st.inc("tree_pairs_equal_with_perturbed_constants");
            if h1 != hash_tree(&t3[i]) {
                st.violation(case, "hash:equal_constants_other_bits", "trees that compare equal (constants 0.0/-0.0 or NaN payloads) hash differently", json!({"program": listing()}));
                return;
            }
        } else {
            st.inc("tree_pairs_unequal_with_perturbed_constants");
        }
        // some other tree
        let j = rng.below(n);
        if sizes[j] <= MAX_EXPANDED {
            if t1[i] == t1[j] {
                st.inc("tree_pairs_equal");
                if h1 != hash_tree(&t1[j]) {
                    st.violation(case, "hash:equal_trees", "trees that compare equal hash differently", json!({"a": listing(), "b": cone_prog(p, j).to_json()}));
                    return;
                }
            } else {
                st.inc("tree_pairs_unequal");
            }
        }
    }
    // import every node's tree into one context (all handles alive: shared
    // sub-trees have strong_count > 1, the import cache is used)
    let mut ctx2 = Context::new();
    let r = guarded(|| t1.iter().map(|t| Some(ctx2.import(t))).collect::<Vec<_>>());
    let imported = match r {
        Ok(x) => x,
        Err(pi) => return panic_violation(st, case, "import", &pi, p),
    };
    let r = guarded(|| {
        check_values("tree_import", case, p, &ctx2, &imported, &vars, &inputs, &infos, st, &none)
    });
    match r {
        Ok(true) => (),
        Ok(false) => return,
        Err(pi) => return panic_violation(st, case, "Context::eval", &pi, p),
    }
    // importing the same / a structurally equal tree again: same node
    for &i in &picks {
        st.inc("dedup_trees_reimported");
        let again = ctx2.import(&t1[i]);
        let twin = ctx2.import(&t2[i]);
        if Some(again) != imported[i] || Some(twin) != imported[i] {
            st.violation(case, "dedup:import", "importing the same expression twice gave two nodes",
                json!({"node": i, "first": format!("{:?}", imported[i]), "again": format!("{again:?}"), "twin": format!("{twin:?}"), "program": cone_prog(p, i).to_json()}));
            return;
        }
    }
    // outputs only, interior handles dropped (single-owner paths of import)
    {
        let outs: Vec<(usize, Tree)> =
            p.outputs.iter().map(|&o| (o as usize, t2[o as usize].clone())).collect();
        drop(t2);
        drop(t1);
        drop(t3);
        let mut ctx3 = Context::new();
        let mut nodes: Vec<Option<Node>> = vec![None; n];
        let r = guarded(|| {
            for (i, t) in &outs {
                nodes[*i] = Some(ctx3.import(t));
            }
        });
        if let Err(pi) = r {
            return panic_violation(st, case, "import", &pi, p);
        }
        let r = guarded(|| {
            check_values("tree_import_outputs", case, p, &ctx3, &nodes, &vars, &inputs, &infos, st, &none)
        });
        match r {
            Ok(true) => (),
            Ok(false) => return,
            Err(pi) => return panic_violation(st, case, "Context::eval", &pi, p),
        }
    }

    // (1c) text
    let mut targets: Vec<usize> = p.outputs.iter().map(|o| *o as usize).collect();
    for _ in 0..3 {
        targets.push(rng.below(n));
    }
    for &tgt in &targets {
        let Some(text) = text_listing(p, tgt, rng) else {
            st.inc("text_skipped_free_variables");
            continue;
        };
        let r = guarded(|| Context::from_text(text.as_bytes()));
        let (tctx, tnode) = match r {
            Ok(Ok(x)) => x,
            Ok(Err(e)) => {
                st.violation(case, "from_text:error", format!("from_text rejected a well-formed listing: {e}"), json!({"text": text}));
                return;
            }
            Err(pi) => {
                if pi.in_repo() {
                    st.violation(case, format!("panic:from_text:{}:{}", pi.site(), pi.msg_class()),
                        format!("from_text panicked on a well-formed listing: {}", pi.msg), json!({"text": text}));
                } else {
                    st.inconclusive.push(format!("harness error in case {case}: {}:{} {}", pi.file, pi.line, pi.msg));
                }
                return;
            }
        };
        st.inc("text_listings_parsed");
        let mut nodes: Vec<Option<Node>> = vec![None; n];
        nodes[tgt] = Some(tnode);
        let r = guarded(|| first_bad("text", p, &tctx, &nodes, &vars, &inputs, &infos, st, true));
        let bad = match r {
            Ok(Ok(None)) => continue,
            Ok(Ok(Some(b))) => b,
            Ok(Err(e)) => {
                st.violation(case, "eval_error:text", format!("Context::eval failed on a parsed node: {e}"), json!({"text": text}));
                return;
            }
            Err(pi) => return panic_violation(st, case, "Context::eval", &pi, p),
        };
        // localise: the first node of the cone whose own listing already
        // evaluates wrongly at that input
        let one_input = [inputs[bad.input].clone()];
        let one_info = [analyse(p, &one_input[0])];
        let mut culprit = (bad, text.clone());
        let in_cone = cone_members(p, tgt);
        for j in 0..tgt {
            if !in_cone[j] {
                continue;
            }
            let Some(tj) = text_listing(p, j, rng) else { continue };
            let Ok(Ok((cj, nj))) = guarded(|| Context::from_text(tj.as_bytes())) else { continue };
            let mut nodes: Vec<Option<Node>> = vec![None; n];
            nodes[j] = Some(nj);
            let mut scratch = Stats::default();
            if let Ok(Ok(Some(mut b))) = guarded(|| first_bad("text", p, &cj, &nodes, &vars, &one_input, &one_info, &mut scratch, false)) {
                b.input = culprit.0.input;
                culprit = (b, tj);
                break;
            }
        }
        let (bad, text) = culprit;
        report_bad("text", case, p, &bad, &inputs, &infos, st, None, json!({"text": text}));
        return;
    }
}

////////////////////////////////////////////////////////////////////////////////
// remap_xyz: "all x/y/z clauses within target will be replaced with the
// provided x/y/z trees" (TreeOp::RemapAxes). The reference program is obtained
// by performing that substitution on the un-rewritten programs. Shared
// sub-trees are used under several frames (import cache keyed by frame).

#[derive(Clone, Copy, Debug)]
enum RKind {
    Base(usize),
    Un(Un, usize),
    Bin(Bin, usize, usize),
    Remap(usize, [usize; 3]),
}

struct Lower<'a> {
    bases: &'a [Prog],
    pool: &'a [RKind],
    dst: Vec<PNode>,
    memo: HashMap<(usize, [u32; 3]), u32>,
}

impl Lower<'_> {
    /// Index in `dst` of pool entry `e` with x,y,z replaced by `frame`
    fn lower(&mut self, e: usize, frame: [u32; 3]) -> u32 {
        // explicit work list: (entry, frame, children lowered?)
        if let Some(r) = self.memo.get(&(e, frame)) {
            return *r;
        }
        let r = match self.pool[e] {
            RKind::Base(b) => {
                let src = &self.bases[b];
                let mut map: Vec<u32> = Vec::with_capacity(src.nodes.len());
                for n in &src.nodes {
                    let idx = match *n {
                        PNode::Var(k) => frame[k as usize],
                        PNode::Const(c) => {
                            self.dst.push(PNode::Const(c));
                            (self.dst.len() - 1) as u32
                        }
                        PNode::Un(o, a) => {
                            self.dst.push(PNode::Un(o, map[a as usize]));
                            (self.dst.len() - 1) as u32
                        }
                        PNode::Bin(o, a, b) => {
                            self.dst.push(PNode::Bin(
                                o,
                                map[a as usize],
                                map[b as usize],
                            ));
                            (self.dst.len() - 1) as u32
                        }
                    };
                    map.push(idx);
                }
                map[src.outputs[0] as usize]
            }
            RKind::Un(o, a) => {
                let a = self.lower(a, frame);
                self.dst.push(PNode::Un(o, a));
                (self.dst.len() - 1) as u32
            }
            RKind::Bin(o, a, b) => {
                let a = self.lower(a, frame);
                let b = self.lower(b, frame);
                self.dst.push(PNode::Bin(o, a, b));
                (self.dst.len() - 1) as u32
            }
            RKind::Remap(t, [x, y, z]) => {
                let f2 = [
                    self.lower(x, frame),
                    self.lower(y, frame),
                    self.lower(z, frame),
                ];
                self.lower(t, f2)
            }
        };
        self.memo.insert((e, frame), r);
        r
    }
}

fn remap_case(case: u64, rng: &mut Rng, st: &mut Stats) {
    st.inc("programs_remap");
    // base programs over x, y, z
    let n_bases = 1 + rng.below(3);
    let bases: Vec<Prog> = (0..n_bases)
        .map(|_| {
            let mut cfg = GenCfg::new(1 + rng.below(6));
            cfg.n_vars = 3;
            cfg.consts = if rng.chance(0.5) {
                prog::Consts::Tame
            } else {
                prog::Consts::Hostile
            };
            prog::generate(rng, &cfg)
        })
        .collect();
    let vars = prog::fresh_vars(3);
    let mut pool: Vec<RKind> = (0..n_bases).map(RKind::Base).collect();
    let n_extra = 2 + rng.below(5);
    for _ in 0..n_extra {
        let k = pool.len();
        let pick = |rng: &mut Rng| {
            if rng.chance(0.4) { k - 1 } else { rng.below(k) }
        };
        let e = match rng.below(10) {
            0 => RKind::Un(*rng.pick(&prog::UNS), pick(rng)),
            1..=3 => RKind::Bin(*rng.pick(&prog::BINS), pick(rng), pick(rng)),
            _ => RKind::Remap(pick(rng), [pick(rng), pick(rng), pick(rng)]),
        };
        pool.push(e);
    }
    // trees: every pool entry built once and cloned at each use
    let keep_handles = rng.chance(0.5);
    let mut trees: Vec<Tree> = vec![];
    for e in &pool {
        let t = match *e {
            RKind::Base(b) => {
                let ts = build_trees(&bases[b], &vars, rng, false);
                ts[bases[b].outputs[0] as usize].clone()
            }
            RKind::Un(o, a) => tree_un(o, &trees[a], false),
            RKind::Bin(o, a, b) => tree_bin(o, &trees[a], &trees[b], None, None, 0),
            RKind::Remap(t, [x, y, z]) => trees[t].remap_xyz(
                trees[x].clone(),
                trees[y].clone(),
                trees[z].clone(),
            ),
        };
        trees.push(t);
    }
    // Eq / Hash on trees with remap nodes: a separately built twin, and
    // affine wrappers whose matrices differ only in the sign of zeros
    {
        let mut size: Vec<u64> = vec![];
        for e in &pool {
            size.push(match *e {
                RKind::Base(b) => expanded_sizes(&bases[b])[bases[b].outputs[0] as usize],
                RKind::Un(_, a) => size[a].saturating_add(1),
                RKind::Bin(_, a, b) => size[a].saturating_add(size[b]).saturating_add(1),
                RKind::Remap(t, [x, y, z]) => size[t]
                    .saturating_add(size[x])
                    .saturating_add(size[y])
                    .saturating_add(size[z])
                    .saturating_add(1),
            });
        }
        let mut twins: Vec<Tree> = vec![];
        for e in &pool {
            let t = match *e {
                RKind::Base(b) => {
                    let ts = build_trees(&bases[b], &vars, rng, false);
                    ts[bases[b].outputs[0] as usize].clone()
                }
                RKind::Un(o, a) => tree_un(o, &twins[a], true),
                RKind::Bin(o, a, b) => tree_bin(o, &twins[a], &twins[b], None, None, 2),
                RKind::Remap(t, [x, y, z]) => twins[t].remap_xyz(
                    twins[x].clone(),
                    twins[y].clone(),
                    twins[z].clone(),
                ),
            };
            twins.push(t);
        }
        for i in 0..pool.len() {
            if size[i] > MAX_EXPANDED {
                continue;
            }
            st.inc("tree_pairs_structurally_equal_with_remap");
            let m1 = translation(0.0, 1.5, 0.0);
            let m2 = translation(-0.0, 1.5, -0.0);
            let (a1, a2) = (trees[i].remap_affine(m1), twins[i].remap_affine(m2));
            let listing = || json!({"pool": pool.iter().map(|e| format!("{e:?}")).collect::<Vec<_>>(), "entry": i,
                                    "bases": bases.iter().map(|b| b.to_json()).collect::<Vec<_>>()});
            if trees[i] != twins[i] {
                st.violation(case, "tree_eq:rebuilt_unequal_remap", "two separately built, structurally identical trees with remap nodes compare unequal", listing());
                return;
            }
            if hash_tree(&trees[i]) != hash_tree(&twins[i]) {
                st.violation(case, "hash:rebuilt_remap", "two separately built, structurally identical trees with remap nodes hash differently", listing());
                return;
            }
            if a1 == a2 {
                st.inc("tree_pairs_equal_affine_zero_signs");
                if hash_tree(&a1) != hash_tree(&a2) {
                    st.violation(case, "hash:equal_affine_other_bits", "trees that compare equal (affine matrices differing in the sign of zeros) hash differently", listing());
                    return;
                }
            }
        }
    }
    // reference program by substitution
    let mut lw = Lower {
        bases: &bases,
        pool: &pool,
        dst: vec![PNode::Var(0), PNode::Var(1), PNode::Var(2)],
        memo: HashMap::new(),
    };
    let last = pool.len() - 1;
    let targets: Vec<usize> = if keep_handles {
        (0..pool.len()).collect()
    } else {
        vec![last]
    };
    let roots: Vec<u32> = targets.iter().map(|&e| lw.lower(e, [0, 1, 2])).collect();
    if lw.dst.len() > 3000 {
        st.inc("remap_skipped_too_large");
        return;
    }
    let p = Prog {
        nodes: lw.dst,
        n_vars: 3,
        outputs: roots.clone(),
    };
    st.distinct(p.hash());
    let trees: Vec<Tree> = if keep_handles {
        trees
    } else {
        // only the root survives; interior strong counts reflect real sharing
        vec![trees[last].clone()]
    };
    let mut ctx = Context::new();
    let r = guarded(|| trees.iter().map(|t| ctx.import(t)).collect::<Vec<Node>>());
    let imported = match r {
        Ok(x) => x,
        Err(pi) => return panic_violation(st, case, "import(remap)", &pi, &p),
    };
    if pool.iter().any(|e| matches!(e, RKind::Remap(..))) {
        st.inc("remap_programs_with_remap");
    }
    let inputs = gen_inputs_for(&p, rng, 12);
    let infos: Vec<RefInfo> = inputs.iter().map(|v| analyse(&p, v)).collect();
    // pool entries in order, so that the first failing entry is the culprit
    for (k, &e) in targets.iter().enumerate() {
        let mut nodes: Vec<Option<Node>> = vec![None; p.nodes.len()];
        nodes[roots[k] as usize] = Some(imported[k]);
        let r = guarded(|| {
            first_bad("tree_remap_xyz", &p, &ctx, &nodes, &vars, &inputs, &infos, st, true)
        });
        let kind = match pool[e] {
            RKind::Base(_) => "base",
            RKind::Un(..) => "unary",
            RKind::Bin(..) => "binary",
            RKind::Remap(..) => "remap",
        };
        let extra = || {
            json!({"failing_pool_entry": e,
                   "pool": pool.iter().map(|e| format!("{e:?}")).collect::<Vec<_>>(),
                   "bases": bases.iter().map(|b| b.to_json()).collect::<Vec<_>>(),
                   "all_pool_trees_kept_alive": keep_handles,
                   "note": "pool entry Remap(t,[x,y,z]) = tree(t).remap_xyz(tree(x),tree(y),tree(z)); every pool tree is built once and cloned at each use; the program is the substitution instance"})
        };
        match r {
            Ok(Ok(None)) => (),
            Ok(Ok(Some(bad))) => {
                let sig = format!("{kind}:{}", if keep_handles { "handles_kept" } else { "handles_dropped" });
                report_bad("tree_remap_xyz", case, &p, &bad, &inputs, &infos, st, Some(sig), extra());
                return;
            }
            Ok(Err(e)) => {
                st.violation(case, "eval_error:tree_remap_xyz", format!("Context::eval failed on an imported node: {e}"), extra());
                return;
            }
            Err(pi) => return panic_violation(st, case, "Context::eval", &pi, &p),
        }
    }
}

////////////////////////////////////////////////////////////////////////////////
// Deep trees on a 256 KiB stack (child process; a stack overflow kills the
// process and the parent attributes it through the progress note)

#[derive(Clone, Copy, Debug, PartialEq, Eq)]
enum DeepShape {
    ChainBinaryConst,
    ChainUnary,
    CombRight,
    CombBushy,
    RemapXyzTargetNest,
    RemapXyzArgNest,
    RemapAffineRawNest,
    RemapAffineApiNest,
    RemapMixedNest,
    /// every level uses the previous level for both operands: a chain as a
    /// DAG, a complete binary tree as an expansion
    SelfShared,
}

const DEEP_SHAPES: [DeepShape; 10] = [
    DeepShape::ChainBinaryConst,
    DeepShape::ChainUnary,
    DeepShape::CombRight,
    DeepShape::CombBushy,
    DeepShape::RemapXyzTargetNest,
    DeepShape::RemapXyzArgNest,
    DeepShape::RemapAffineRawNest,
    DeepShape::RemapAffineApiNest,
    DeepShape::RemapMixedNest,
    DeepShape::SelfShared,
];

fn translation(x: f32, y: f32, z: f32) -> nalgebra::Affine3<f32> {
    nalgebra::convert(nalgebra::Translation3::<f32>::new(x, y, z))
}

/// Returns the tree and a handle to a node half-way down
fn build_deep(shape: DeepShape, depth: usize) -> (Tree, Tree) {
    let mut mid: Option<Tree> = None;
    let t = match shape {
        DeepShape::ChainBinaryConst => {
            let mut t = Tree::x();
            for i in 0..depth {
                match i % 4 {
                    0 => t += 1.0,
                    1 => t *= 1.5,
                    2 => t -= Tree::y(),
                    _ => t = t.max(0.25),
                }
                if i == depth / 2 {
                    mid = Some(t.clone());
                }
            }
            t
        }
        DeepShape::ChainUnary => {
            let mut t = Tree::x() + Tree::y();
            for i in 0..depth {
                t = match i % 4 {
                    0 => t.sin(),
                    1 => -t,
                    2 => t.abs(),
                    _ => t.sqrt(),
                };
                if i == depth / 2 {
                    mid = Some(t.clone());
                }
            }
            t
        }
        DeepShape::CombRight => {
            let mut t = Tree::z();
            for i in 0..depth {
                t = match i % 3 {
                    0 => 1.5 + t,
                    1 => Tree::y() * t,
                    _ => Tree::constant(2.0).min(t),
                };
                if i == depth / 2 {
                    mid = Some(t.clone());
                }
            }
            t
        }
        DeepShape::CombBushy => {
            let mut t = Tree::z();
            for i in 0..depth {
                t = if i % 2 == 0 {
                    (Tree::x() * 2.0).min(t)
                } else {
                    t.max(Tree::y().sin()) + 0.5
                };
                if i == depth / 2 {
                    mid = Some(t.clone());
                }
            }
            t
        }
        DeepShape::RemapXyzTargetNest => {
            let mut t = Tree::x() + Tree::y();
            for i in 0..depth {
                t = t.remap_xyz(Tree::x() + 1.0, Tree::y(), Tree::z());
                if i == depth / 2 {
                    mid = Some(t.clone());
                }
            }
            t
        }
        DeepShape::RemapXyzArgNest => {
            let mut t = Tree::x() + 0.5;
            for i in 0..depth {
                t = (Tree::x() * 2.0).remap_xyz(t, Tree::y(), Tree::z());
                if i == depth / 2 {
                    mid = Some(t.clone());
                }
            }
            t
        }
        DeepShape::RemapAffineRawNest => {
            // TreeOp is public: nest RemapAffine directly (Tree::remap_affine
            // would flatten the sequence)
            let m = translation(1.0, 0.0, 0.0);
            let mut a: Arc<TreeOp> = Arc::new(TreeOp::Binary(
                BinaryOpcode::Add,
                Arc::new(TreeOp::Input(Var::X)),
                Arc::new(TreeOp::Input(Var::Y)),
            ));
            for _ in 1..depth {
                a = Arc::new(TreeOp::RemapAffine { target: a, mat: m });
            }
            Tree::from(TreeOp::RemapAffine { target: a, mat: m })
        }
        DeepShape::RemapAffineApiNest => {
            let m = translation(0.0, 1.0, 0.0);
            let mut t = Tree::x() * Tree::y();
            for i in 0..depth {
                t = t.remap_affine(m) + 1.0;
                if i == depth / 2 {
                    mid = Some(t.clone());
                }
            }
            t
        }
        DeepShape::RemapMixedNest => {
            let m = translation(0.5, 0.0, -1.0);
            let mut t = Tree::x() - Tree::z();
            for i in 0..depth {
                t = match i % 4 {
                    0 => t.remap_affine(m),
                    1 => t + 0.5,
                    2 => t.remap_xyz(Tree::y(), Tree::z(), Tree::x()),
                    _ => t.abs(),
                };
                if i == depth / 2 {
                    mid = Some(t.clone());
                }
            }
            t
        }
        DeepShape::SelfShared => {
            let mut t = Tree::x() + Tree::y();
            for i in 0..depth {
                t = match i % 4 {
                    0 => t.clone().min(t),
                    1 => t.clone() * t,
                    2 => t.clone().max(t),
                    _ => t.clone() + t,
                };
                if i == depth / 2 {
                    mid = Some(t.clone());
                }
            }
            t
        }
    };
    let mid = mid.unwrap_or_else(|| t.clone());
    (t, mid)
}

/// (signature, summary) of every failed structural check
fn deep_body(shape: DeepShape, depth: usize) -> Vec<(String, String)> {
    let mut bad = vec![];
    let note = |what: &str| {
        child::note(&format!("C12 deep {what} {shape:?} | depth={depth}"))
    };
    note("build");
    let (t1, mid) = build_deep(shape, depth);
    let (t2, mid2) = build_deep(shape, depth);
    drop(mid2);
    note("clone");
    let c = t1.clone();
    note("compare-with-clone");
    if t1 != c {
        bad.push((format!("deep_eq_clone:{shape:?}"), "a deep tree compares unequal to its clone".into()));
    }
    // (== and Hash walk the expansion of a DAG: for the self-shared chain
    // that is 2^depth nodes unless both sides are the same allocation, so
    // the twin comparison and the hashes are left out for that shape)
    let dag = shape == DeepShape::SelfShared;
    note("compare-with-twin");
    if !dag && t1 != t2 {
        bad.push((format!("deep_eq_twin:{shape:?}"), "two separately built, structurally identical deep trees compare unequal".into()));
    }
    note("hash");
    let (h1, h2, hc) = if dag { (0, 0, 0) } else { (hash_tree(&t1), hash_tree(&t2), hash_tree(&c)) };
    if h1 != h2 || h1 != hc {
        bad.push((format!("deep_hash:{shape:?}"), "structurally identical deep trees hash differently".into()));
    }
    note("import");
    let mut ctx = Context::new();
    let n1 = ctx.import(&t1);
    note("import-twin");
    let n2 = ctx.import(&t2);
    if n1 != n2 {
        bad.push((format!("deep_dedup:{shape:?}"), "the same deep expression imported twice gave two nodes".into()));
    }
    note("export");
    let e1 = ctx.export(n1).unwrap();
    let e2 = ctx.export(n1).unwrap();
    note("import-exported");
    let n3 = ctx.import(&e1);
    if n3 != n1 {
        bad.push((format!("deep_import_export:{shape:?}"), "import(export(n)) != n for a deep node".into()));
    }
    // (exported trees are DAGs: == and Hash walk their expansion, which is
    // only linear as long as the rewrites keep the graph a chain; they are
    // not compared here so that every step stays bounded)
    note("import-second-export");
    if ctx.import(&e2) != n1 {
        bad.push((format!("deep_import_export:{shape:?}"), "import(export(n)) != n for a deep node".into()));
    }
    note("drop-clone");
    drop(c);
    note("drop-tree-with-live-inner-handle");
    drop(t1);
    note("drop-inner-handle");
    drop(mid);
    note("drop-twin");
    drop(t2);
    note("drop-exported");
    drop(e1);
    drop(e2);
    note("drop-context");
    drop(ctx);
    note("done");
    bad
}

fn deep_case(case: u64, k: u64, rng: &mut Rng, st: &mut Stats, tier: Tier) {
    let shape = DEEP_SHAPES[(k % DEEP_SHAPES.len() as u64) as usize];
    let depth: usize = match tier {
        Tier::Quick => 100_000,
        Tier::Thorough => {
            let heavy = matches!(
                shape,
                DeepShape::RemapXyzTargetNest
                    | DeepShape::RemapXyzArgNest
                    | DeepShape::CombBushy
            );
            match rng.below(3) {
                0 => 100_000 + rng.below(100_000),
                1 => 300_000,
                _ => {
                    if heavy {
                        500_000
                    } else {
                        1_000_000
                    }
                }
            }
        }
    };
    let h = std::thread::Builder::new()
        .stack_size(256 << 10)
        .spawn(move || guarded(|| deep_body(shape, depth)))
        .expect("spawn deep thread");
    match h.join() {
        Ok(Ok(bad)) => {
            st.inc("deep_cases_completed");
            st.inc(&format!("deep_{shape:?}"));
            st.max("deep_depth", depth as f64);
            for (sig, summary) in bad {
                st.violation(case, sig, summary, json!({"shape": format!("{shape:?}"), "depth": depth}));
            }
        }
        Ok(Err(pi)) => {
            if pi.in_repo() {
                st.violation(
                    case,
                    format!("panic:deep:{shape:?}:{}:{}", pi.site(), pi.msg_class()),
                    format!("fidget panicked on a deep tree at {}: {}", pi.site(), pi.msg),
                    json!({"shape": format!("{shape:?}"), "depth": depth, "message": pi.msg}),
                );
            } else {
                st.inconclusive.push(format!("harness error in deep case {case}: {}:{} {}", pi.file, pi.line, pi.msg));
            }
        }
        Err(_) => st.inconclusive.push(format!("deep thread of case {case} died")),
    }
}

////////////////////////////////////////////////////////////////////////////////

/// Rewrite rules of the constructors that must have been exercised
/// (`rule_<op>|<operand facts>|<result shape>`, see `record_bin_rule`)
const RULE_FLOOR: [&str; 30] = [
    "rule_add|same|Mul_other",
    "rule_add|l0|rhs",
    "rule_add|r0|lhs",
    "rule_add|rr|Add_swapped",
    "rule_add|cc|const",
    "rule_mul|same|un_Square",
    "rule_mul|l1|rhs",
    "rule_mul|r1|lhs",
    "rule_mul|l0|lhs",
    "rule_mul|r0|rhs",
    "rule_mul|rr|Mul_swapped",
    "rule_mul|cc|const",
    "rule_min|same|operand",
    "rule_min|rr|Min_swapped",
    "rule_max|same|operand",
    "rule_max|rr|Max_swapped",
    "rule_and|l0|lhs",
    "rule_and|lc|rhs",
    "rule_or|lc|lhs",
    "rule_or|l0|rhs",
    "rule_or|r0|lhs",
    "rule_sub|l0|un_Neg",
    "rule_sub|r0|lhs",
    "rule_sub|cc|const",
    "rule_div|l0|lhs",
    "rule_div|r1|lhs",
    "rule_div|cc|const",
    "rule_un_neg|c|const",
    "rule_un_sin|c|const",
    "rule_dedup_existing_node",
];

impl Prop for C12 {
    fn id(&self) -> &'static str {
        "C12"
    }
    fn mode(&self) -> Mode {
        Mode::Children
    }
    fn n_cases(&self, tier: Tier) -> u64 {
        tier.pick(20_000, 600_000)
    }
    fn time_cap_s(&self, tier: Tier) -> u64 {
        tier.pick(100, 840)
    }
    fn run_case(&self, case: u64, rng: &mut Rng, st: &mut Stats, tier: Tier) {
        if let Some(k) = deep_index(case, tier) {
            return deep_case(case, k, rng, st, tier);
        }
        match rng.below(100) {
            0..=11 => remap_case(case, rng, st),
            12..=49 => {
                let p = focused_prog(rng);
                semantic_case(case, &p, rng, st, "focused");
            }
            _ => {
                let mut cfg = GenCfg::random(rng, tier.pick(160, 300));
                if rng.chance(0.5) {
                    cfg.n_vars = 3;
                }
                let p = prog::generate(rng, &cfg);
                semantic_case(case, &p, rng, st, "generated");
            }
        }
    }
    fn finish(&self, st: &mut Stats, tier: Tier) {
        let floor = tier.pick(100, 100);
        for r in RULE_FLOOR {
            if st.get(r) < floor {
                st.inconclusive.push(format!(
                    "rewrite rule {r} observed only {} times (floor {floor})",
                    st.get(r)
                ));
            }
        }
        let rules = st.counters.keys().filter(|k| k.starts_with("rule_")).count();
        st.add("distinct_rule_outcomes_seen", rules as u64);
        for (k, f) in [
            ("value_comparisons_ctor", 100_000),
            ("value_comparisons_tree_import", 100_000),
            ("value_comparisons_tree_import_outputs", 5_000),
            ("value_comparisons_text", 5_000),
            ("value_comparisons_tree_remap_xyz", 2_000),
            ("remap_programs_with_remap", 200),
            ("dedup_nodes_rebuilt", 50_000),
            ("import_export_roundtrips", 50_000),
            ("tree_pairs_structurally_equal", 5_000),
            ("tree_pairs_equal_with_perturbed_constants", 2_000),
            ("text_listings_parsed", 3_000),
        ] {
            if st.get(k) < f {
                st.inconclusive
                    .push(format!("{k} = {} below floor {f}", st.get(k)));
            }
        }
        for s in DEEP_SHAPES {
            let k = format!("deep_{s:?}");
            if st.get(&k) < tier.pick(3, 20) {
                st.inconclusive.push(format!(
                    "deep shape {s:?} completed only {} times",
                    st.get(&k)
                ));
            }
        }
        let want_depth = tier.pick(100_000.0, 1_000_000.0);
        if st.maxes.get("deep_depth").copied().unwrap_or(0.0) < want_depth
            && st.get("child_crashes") == 0
        {
            st.inconclusive
                .push(format!("no deep case reached depth {want_depth}"));
        }
    }
    fn rule(&self) -> String {
        format!("child processes; 1 case in 61 (quick) / 487 (thorough) = deep tree (9 shapes: binary/unary chains, right/bushy combs, nested remap_xyz through target and through argument, raw nested RemapAffine, remap_affine via API, mixed; depth 1e5 quick, up to 1e6 thorough) built twice, cloned, ==, hashed, imported twice, exported twice, re-imported and dropped (with a live inner handle) on a 256 KiB stack, never evaluated; other cases = one expression program (generated DAG <=160/300 nodes, or rewrite-focused program with 0/-0/1 constants on either side and x op x, or remap_xyz expression with shared sub-trees under several frames lowered to a reference program by substitution): built by Context constructors (every node, rules classified from operands/result), rebuilt in the same context (node identity), every node export->import (identity), Trees built twice (+ once with 0.0<->-0.0 / other NaN payload) compared and hashed with a deterministic SipHash, all node trees imported (handles alive) and output trees imported (handles dropped), text listings of outputs+3 nodes through from_text; Context::eval at 16 inputs vs refmodel on the un-rewritten program with same_val wherever the whole reference cone is finite and no non-variable reference zero feeds atan2/rand/mix/recip/div-rhs; distinct = structural program hash")
    }
    fn assumptions(&self) -> Vec<String> {
        vec![
            "'stays finite throughout' = every reference value in the cone (sub-DAG) of the judged node is finite, including constants and branches not selected by and/or".into(),
            "libm results are deterministic within one process (reference and Context::eval call the same std functions)".into(),
            "commutative reordering min(a,b)==min(b,a) as *node identity* is not part of the statement; its absence shows only as a missed rule floor (inconclusive)".into(),
            "pointer sharing in exported trees is observed (counters export_shared_node_*) but not judged: the public docs do not promise it".into(),
            "from_text has no recip opcode and no free variables: 1/a is written `div <const 1> a`; programs using free variables are not sent through text".into(),
            "Context::eval is recursive and is never called on deep cases".into(),
        ]
    }
}
