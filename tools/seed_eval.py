#!/usr/bin/env python3
"""Confirms and evaluates one independently written breaking change.

usage: tools/seed_eval.py <Cxx> <out_dir> <bugN> [--checks=C01,C02] [--no-suite] [--as=bugM]

1. in the scratch worktree /tmp/wt_$MUT_SLOT (unchanged HEAD): place the demo, run it
   -> must pass;
2. apply the diff: demo must fail; the whole existing suite must still pass
   (564 passed, only fidget-wgpu ssao_bias failing);
3. run the quick tier of the given checks (default: the property's own) against
   the changed worktree through tools/mutant.sh --patch and report which
   fire;
4. on success copy patch, demo and a meta.json to /verif/seeded/<Cxx>-<bugN>/.
Nothing is applied to /repo itself.
"""
import json, os, re, shutil, subprocess, sys

os.environ.setdefault('MUT_COMMITTED', '1')

def sh(cmd, cwd=None, timeout=3600):
    p = subprocess.run(cmd, shell=True, cwd=cwd, capture_output=True, text=True, timeout=timeout)
    return p.returncode, p.stdout + p.stderr

def main():
    prop, out_dir, bug = sys.argv[1:4]
    checks = [prop]
    suite = True
    keep_as = bug
    for a in sys.argv[4:]:
        if a.startswith('--as'):
            keep_as = a.split('=')[1]
        if a.startswith('--checks'):
            checks = a.split('=')[1].split(',')
        if a == '--no-suite':
            suite = False
    n = bug.replace('bug', '')
    diff = f'{out_dir}/{bug}.diff'
    demo = f'{out_dir}/demo{n}.rs'
    head = ' '.join(l.strip().lstrip('/').strip() for l in open(demo).read().splitlines()[:8])
    m1 = re.search(r'place at\s+([\w./-]+\.rs)', head)
    m2 = re.search(r'run:\s*`?(cargo [^`;]*?--offline)', head) or re.search(r'(cargo test [^`;]*?--offline)', head)
    assert m1 and m2, head
    place, run_cmd = m1.group(1), m2.group(1).strip()
    run_cmd = run_cmd.replace('cargo test', 'cargo test -j 8')
    slot = os.environ.get('MUT_SLOT', 'main')
    wt = f'/tmp/wt_{slot}'
    if not os.path.isdir(wt):
        sh(f'git -C /repo worktree add -q --detach {wt} HEAD')
    headc = subprocess.check_output(['git', '-C', '/repo', 'rev-parse', 'HEAD'], text=True).strip()
    sh(f'git checkout -q --detach {headc} && git reset -q --hard && git clean -qfd -e target', cwd=wt)
    os.makedirs(os.path.dirname(f'{wt}/{place}'), exist_ok=True)
    shutil.copy(demo, f'{wt}/{place}')
    rc0, out0 = sh(run_cmd, cwd=wt)
    print(f'[unchanged] demo exit {rc0}')
    rc, o = sh(f'git apply {diff}', cwd=wt)
    if rc != 0:
        print('PATCH DOES NOT APPLY', o); sys.exit(3)
    rc1, out1 = sh(run_cmd, cwd=wt)
    print(f'[changed]   demo exit {rc1}')
    suite_ok = None
    suite_line = ''
    if suite:
        os.remove(f'{wt}/{place}')
        rcs, outs = sh('cargo nextest run --workspace --no-fail-fast --offline --build-jobs 8 --test-threads 8', cwd=wt)
        lines = [l for l in outs.splitlines() if 'Summary' in l]
        suite_line = lines[-1].strip() if lines else 'no summary'
        fails = sorted(set(l.split('] ')[-1].strip() for l in outs.splitlines() if l.strip().startswith('FAIL')))
        suite_ok = ('564 passed' in suite_line) and all('ssao_bias' in f for f in fails)
        FLAKY = {'tree_import_cache': ('fidget-core', 'tree_import_'), 'tree_import_nocache': ('fidget-core', 'tree_import_'),
                 'small_linear': ('fidget-solver', 'small_linear')}
        others = [f for f in fails if 'ssao_bias' not in f]
        if not suite_ok and others and all(any(k in f for k in FLAKY) for f in others) and re.search(r'56[0-3] passed', suite_line):
            # wall-clock comparisons (tree_import_*cache) and a test on
            # rand::random matrices (small_linear) fail now and then on the
            # unchanged tree as well: run them alone, up to 3 times each
            ok_all = True
            for f in others:
                crate, filt = next(v for k, v in FLAKY.items() if k in f)
                ok = False
                for _ in range(3):
                    rct, outt = sh(f'cargo nextest run -p {crate} --offline --build-jobs 8 {filt}', cwd=wt)
                    if rct == 0:
                        ok = True
                        break
                ok_all = ok_all and ok
            if ok_all:
                suite_ok = True
                suite_line += ' (known flaky tests passed when re-run alone: ' + ', '.join(others) + ')'
    sh('git reset -q --hard && git clean -qfd -e target', cwd=wt)
    confirmed = rc0 == 0 and rc1 != 0 and (suite_ok is not False)
    results = {}
    for c in checks:
        rcc, outc = sh(f'/verif/tools/mutant.sh {c} --patch {diff}', timeout=7200)
        viol = [l for l in outc.splitlines() if l.startswith('VIOLATION')]
        held = any('held on everything' in l for l in outc.splitlines())
        inc = [l for l in outc.splitlines() if l.startswith('INCONCLUSIVE')]
        sigs = sorted(set(l.rsplit('[', 1)[-1].rstrip(']') for l in viol))
        results[c] = {'caught': bool(viol), 'held': held, 'inconclusive': inc[:2], 'signatures': sigs[:6]}
        print(f'[check {c}] caught={bool(viol)} held={held} sigs={sigs[:4]} {inc[:1]}')
    meta_all = json.load(open(f'{out_dir}/meta.json')) if os.path.exists(f'{out_dir}/meta.json') else []
    meta = next((x for x in meta_all if x.get('id') == bug), {})
    if confirmed:
        dst = f'/verif/seeded/{prop}-{keep_as}'
        os.makedirs(dst, exist_ok=True)
        shutil.copy(diff, f'{dst}/patch.diff')
        shutil.copy(demo, f'{dst}/{os.path.basename(place)}')
        json.dump({
            'property': prop,
            'breaks': meta.get('what', ''),
            'needs_to_manifest': meta.get('needs_to_manifest', ''),
            'files': meta.get('files', []),
            'demo': {'place_at': place, 'run': run_cmd, 'exit_unchanged': rc0, 'exit_changed': rc1},
            'existing_suite_with_change': suite_line,
            'confirmed_by': f'tools/seed_eval.py in scratch worktree {wt}',
            'checks': results,
        }, open(f'{dst}/meta.json', 'w'), indent=1)
        print('KEPT', dst)
    else:
        print('NOT CONFIRMED', rc0, rc1, suite_ok)
        print(out0[-800:] if rc0 != 0 else out1[-300:])

if __name__ == '__main__':
    main()
