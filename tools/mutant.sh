#!/bin/bash
# usage: tools/mutant.sh <Cxx> <file-in-repo> <old-literal> <new-literal> [extra fv args]
#        tools/mutant.sh <Cxx> --patch <patch-file> [extra fv args]
# Applies a mutation to a scratch worktree of /repo (never to /repo itself),
# builds a scratch copy of the harness against it and runs the quick check.
# Scratch lives in /tmp/wt_$MUT_SLOT and /tmp/h_$MUT_SLOT (slot "main" by default); remove with [MUT_SLOT=x] tools/mutant.sh --clean
set -u
slot=${MUT_SLOT:-main}; wt=/tmp/wt_$slot; h=/tmp/h_$slot
if [ "${1:-}" = "--clean" ]; then
    git -C /repo worktree remove --force $wt 2>/dev/null; rm -rf $h $wt; git -C /repo worktree prune; exit 0
fi
prop=$1; shift
if [ ! -d $wt ]; then git -C /repo worktree add -q --detach $wt HEAD || exit 2; fi
head=$(git -C /repo rev-parse HEAD)
git -C $wt checkout -q --detach $head && git -C $wt reset -q --hard && git -C $wt clean -qfd -e target
mkdir -p $h/harness $h/evidence $h/replays
if [ -n "${MUT_COMMITTED:-}" ]; then
    # the harness as committed (evaluations that run while the working tree
    # is being edited)
    rm -rf $h/harness.new && mkdir -p $h/harness.new
    git -C /verif archive HEAD harness | tar -x -C $h/harness.new
    rsync -a --delete --exclude target $h/harness.new/harness/ $h/harness/
    rm -rf $h/harness.new
else
    rsync -a --delete --exclude target /verif/harness/ $h/harness/
fi
sed -i "s#/repo/#$wt/#g" $h/harness/Cargo.toml
cp /verif/known_findings.json /verif/properties.jsonl $h/
if [ "$1" = "--patch" ]; then
    git -C $wt apply "$(realpath "$2")" || { echo "PATCH DOES NOT APPLY"; exit 3; }
    shift 2
else
    file=$1; old=$2; new=$3; shift 3
    python3 - "$wt/$file" "$old" "$new" <<'PY' || exit 3
import sys
p,old,new=sys.argv[1:4]
s=open(p).read()
if s.count(old)<1: print("PATTERN NOT FOUND"); sys.exit(3)
open(p,'w').write(s.replace(old,new,1))
PY
fi
git -C $wt diff --stat | tail -1
cd $h/harness || exit 2
if ! out=$(CARGO_NET_OFFLINE=true cargo build --release --offline 2>&1); then
    # never judge a change with a stale binary (e.g. /verif/harness was
    # copied in the middle of an edit)
    echo "$out" | grep -E '^error' -A8 | head -20
    echo "INCONCLUSIVE: harness build failed in $h"
    git -C $wt reset -q --hard
    exit 2
fi
FV_ROOT=$h ./target/release/fv $prop quick "$@" 2>&1 | grep -E '^VIOLATION|held on|INCONCLUSIVE|KNOWN' | cut -c1-700 | head -6
git -C $wt reset -q --hard
