#!/bin/bash
# usage: tools/mutant.sh <Cxx> <file-in-repo> <python-regex-or-literal old> <new> [extra fv args]
# Applies a one-off textual mutation to /repo, runs the quick check, restores.
prop=$1; file=$2; old=$3; new=$4; shift 4
cd /repo || exit 2
if [ -n "$(git status --porcelain)" ]; then echo "repo dirty"; exit 2; fi
python3 - "$file" "$old" "$new" <<'PY'
import sys
p,old,new=sys.argv[1:4]
s=open(p).read()
if s.count(old)<1: print("PATTERN NOT FOUND"); sys.exit(3)
s=s.replace(old,new,1)
open(p,'w').write(s)
PY
rc=$?
if [ $rc -ne 0 ]; then git checkout -- .; exit $rc; fi
git diff --stat | tail -1
cd /verif && ./check $prop quick "$@" 2>&1 | grep -E 'VIOLATION|held on|INCONCLUSIVE|error' | head -5
cd /repo && git checkout -- .
