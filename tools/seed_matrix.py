#!/usr/bin/env python3
"""Re-runs the quick tier of a check against every kept seeded change and
refreshes seeded/<id>/meta.json ("checks") and seeded/README.md.

usage: tools/seed_matrix.py [--only C06-bug2,...] [--also C03:C06-bug2,...]

Every change is applied to the scratch worktree /tmp/wt_main through
tools/mutant.sh (never to /repo).  By default each change is run against the
check of its own property; `--also Cyy:Cxx-bugN` adds another check for one
change.
"""
import json, os, subprocess, sys, glob, time

ROOT = os.path.dirname(os.path.dirname(os.path.abspath(__file__)))

os.environ.setdefault('MUT_COMMITTED', '1')

def run_check(check, patch):
    p = subprocess.run([f'{ROOT}/tools/mutant.sh', check, '--patch', patch],
                       capture_output=True, text=True, timeout=4 * 3600)
    out = p.stdout + p.stderr
    viol = [l for l in out.splitlines() if l.startswith('VIOLATION')]
    held = any('held on everything' in l for l in out.splitlines())
    inc = [l for l in out.splitlines() if l.startswith('INCONCLUSIVE')]
    sigs = sorted(set(l.rsplit('[', 1)[-1].rstrip(']') for l in viol))
    bad = 'PATCH DOES NOT APPLY' in out
    return {'caught': bool(viol), 'held': held, 'inconclusive': inc[:2],
            'signatures': sigs[:6], 'patch_applies': not bad}

def main():
    only, also = None, {}
    for a in sys.argv[1:]:
        if a.startswith('--only'):
            only = set(a.split('=')[1].split(','))
        if a.startswith('--also'):
            for item in a.split('=')[1].split(','):
                c, s = item.split(':')
                also.setdefault(s, []).append(c)
    head = subprocess.check_output(['git', '-C', '/repo', 'rev-parse', '--short', 'HEAD'], text=True).strip()
    for d in sorted(glob.glob(f'{ROOT}/seeded/C*-bug*')):
        name = os.path.basename(d)
        if only and name not in only:
            continue
        meta = json.load(open(f'{d}/meta.json'))
        checks = [meta['property']] + also.get(name, [])
        for c in checks:
            t0 = time.time()
            r = run_check(c, f'{d}/patch.diff')
            r['repo_head'] = head
            old = meta.get('checks', {}).get(c)
            if old is not None and not old.get('caught') and r['caught']:
                # keep the record that the first version of the check missed it
                meta.setdefault('missed_before_strengthening', {})[c] = old
            meta.setdefault('checks', {})[c] = r
            print(f'{name} vs {c}: caught={r["caught"]} held={r["held"]} '
                  f'{r["signatures"][:2]} {r["inconclusive"][:1]} ({time.time()-t0:.0f}s)', flush=True)
        json.dump(meta, open(f'{d}/meta.json', 'w'), indent=1)
    write_readme()

def write_readme():
    rows = []
    for d in sorted(glob.glob(f'{ROOT}/seeded/C*-bug*')):
        name = os.path.basename(d)
        meta = json.load(open(f'{d}/meta.json'))
        own = meta['property']
        ch = meta.get('checks', {})
        caught_by = [c for c, r in ch.items() if r.get('caught')]
        missed_by = [c for c, r in ch.items() if not r.get('caught')]
        sig = ''
        if own in ch and ch[own].get('signatures'):
            sig = ch[own]['signatures'][0]
        elif caught_by:
            sig = ch[caught_by[0]]['signatures'][0]
        files = ', '.join(meta.get('files', []))
        what = meta.get('breaks', '').replace('\n', ' ').replace('|', '/')
        if len(what) > 260:
            what = what[:257] + '...'
        first_miss = ', '.join(meta.get('missed_before_strengthening', {}).keys())
        rows.append(f'| {name} | {files} | {what} | {", ".join(caught_by) or "-"} | {", ".join(missed_by) or "-"} | {first_miss or "-"} | `{sig[:90]}` |')
    with open(f'{ROOT}/seeded/README.md', 'w') as f:
        f.write('''# Seeded changes

Each directory holds one change to mkeeter/fidget written by a fresh
sub-agent that saw only the text of one property and its own scratch worktree
(nothing from /verif): `patch.diff` (applies to /repo HEAD with `git apply`),
the agent's demonstration (a test that passes on the unchanged tree and fails
with the change) and `meta.json`.  Every change was confirmed here
(`tools/seed_eval.py`): demo passes unchanged / fails changed, and the whole
existing suite still reports 564 passed with the change.  None of them is
ever applied to /repo; `tools/mutant.sh <Cxx> --patch seeded/<id>/patch.diff`
applies one to a scratch worktree, builds the harness against it and runs the
quick tier.  `tools/seed_matrix.py` regenerates the table below.

"caught by" = quick tier of that check printed at least one VIOLATION line
against the changed tree (default seed); "not caught by" = the checks that
were run and held.

| change | files | what it breaks | caught by | not caught by | missed before strengthening (see DESIGN.md 7.6) | first signature |
|---|---|---|---|---|---|---|
''')
        f.write('\n'.join(rows) + '\n')

if __name__ == '__main__':
    if len(sys.argv) > 1 and sys.argv[1] == '--readme':
        write_readme()
    else:
        main()
