#!/usr/bin/env python3
"""Generates /verif/MANIFEST.json from the table below (kept in one place so
that claimed checks and not_applicable stay consistent)."""
import json, os, subprocess

HERE = os.path.dirname(os.path.dirname(os.path.abspath(__file__)))

# property id -> (technique, level text, level note, design ref)
CLAIMED = {
    "C01": (
        "differential runtime monitor: generated programs x 13 register budgets, VM point+slice evaluators vs Context::eval bit-for-bit, plus independent shadow interpreter with structural tape invariants",
        "Held on every generated program/budget/input observed in the run (counts in evidence). Exploration, not proof: bounded program size (<=400 nodes), 13 budgets, 12 inputs per program.",
        "Trusts Context::eval as the meaning of 'graph evaluated operation by operation'; samples in which a NaN reaches rand/mix are not judged (NaN payload bits are not values).",
        "DESIGN.md 3/C01",
    ),
}

CLAIMED["C02"] = (
    "differential runtime monitor under a guard-page allocator: x86-64 JIT point and SIMD slice evaluators vs the interpreter per node, every slice length 0..=35, crash monitor (child processes) for SIGSEGV/abort",
    "Held on every program/input/length observed; any access outside the caller's slices or the evaluator's freshly allocated buffers faults and is attributed to the case. Exploration over generated programs, not proof.",
    "x86-64 only; Vec spare capacity is avoided by using a fresh evaluator per call; in-bounds wrong-lane writes are only visible through the value oracle.",
    "DESIGN.md 3/C02",
)

CLAIMED["C04"] = (
    "differential runtime monitor: traces from all four tracing evaluators (VM/JIT x point/interval), simplify (reused/fresh storage and workspace, budgets 3/8/255, chains over nested boxes), parent vs child bit-for-bit under point, float-slice, gradient and interval evaluators; crash monitor; witness shrinking",
    "Held on every generated program/trace/box/point observed. A discrepancy is attributed to C04 only when every node value at the point is enclosed by its interval on every traced box (otherwise it is C03 rounding slack and counted). Exploration.",
    "Outputs into which a NaN was hashed by rand/mix are not compared (NaN payload bits are not values); interval evaluations that panic are left to C11.",
    "DESIGN.md 3/C04",
)
CLAIMED["C20"] = (
    "runtime monitor with an independent shadow interpreter and symbolic tape-to-graph matching: expected trace entries derived from the shadow's operand values (points) or the backend's own operand intervals (boxes, all-nodes twin); VM trace == JIT trace; shapes and metadata of functions vs tapes; bulk output shapes (outputs x samples) with long-lived evaluators over functions of different output counts",
    "Held on every generated program/point/box observed (counts of entries checked per op and entry kind in evidence). Exploration.",
    "Choice sites whose operands depend on a min/max zero tie (JIT exemption of C02) or a NaN hashed by rand/mix are skipped and counted; x86-64 only.",
    "DESIGN.md 3/C20",
)

CLAIMED["C03"] = (
    "runtime monitor with two local enclosure obligations per node and box (operand sampling through an independent opcode model; interpreter point values at points of the box) on both backends, plus transform decomposition through the trivial shapes X,Y,Z; crash monitor; witness shrinking",
    "Held, up to 8 ulps, on every node/box/sample observed except the listed known findings; local obligations make the verdict independent of error compounding and of the dependency problem. Exploration.",
    "atan2 with both operand intervals containing 0 excluded (stated); NaN results/intervals not judged; panicking or ill-formed interval results are left to C11; only bit-realisable points are used (a degenerate side [-0,-0] yields -0.0, never +0.0).",
    "DESIGN.md 3/C03",
)

CLAIMED["C05"] = (
    "runtime monitor: per-node local chain-rule obligation on the evaluator's own f32 operand duals against f64 derivative rules (tolerance 64*eps*T), gradient value bit-equal to the point value, and Context::deriv evaluated in f64 against an f64 dual-number reference; both backends, arbitrary seed gradients, witness shrinking",
    "Held on every node/sample observed away from the stated non-differentiable loci (guards and skip counts in evidence; observed worst error ~12 eps*T against a tolerance of 64). Exploration.",
    "Loci guard as listed in the evidence assumptions; values into which a NaN was hashed by rand/mix are not compared.",
    "DESIGN.md 3/C05",
)
CLAIMED["C16"] = (
    "runtime monitor against an independent closed-form f64 geometry model: every shape/transform struct of the library with random parameters and nesting, sign tests for primitives and CSG, T(s)(p)=s(T^-1 p) for transforms, periodicity/slab/symmetry tests, named axes and planes; axis vectors include exact (anti-)principal directions",
    "Held on every shape/point observed (all 26 structs exercised, floors per kind). Exploration over parameters and sample points.",
    "Only what the documentation states unambiguously is judged (list of non-judged aspects in the evidence assumptions); points within 1e-4 of a surface are skipped for sign tests.",
    "DESIGN.md 3/C16",
)

CLAIMED["C18"] = (
    "runtime monitor over random event histories (interact/begin_drag/drag/end_drag/zoom/resize, 2D and 3D, canvas and view level): after every event the stated relations are recomputed in f64 from the public components (cursor model point fixed under zoom, grabbed point fixed under pan, rotate invariants, changed-flag direction as stated, matrix = translate*rotate*scale); witness shrinking by dropping events",
    "Held on every history/event observed (tens of millions of events per quick run). Exploration over histories.",
    "Histories stop when the scale leaves [1e-7,1e7]; cursor events on zero-sized images skipped; only the stated direction of the changed flag is judged.",
    "DESIGN.md 3/C18",
)

CLAIMED["C11"] = (
    "crash monitor: every case in a child process with panic capture (catch_unwind + panic hook + progress file for aborts/SIGSEGV), all four evaluator kinds of both backends on finite points/boxes up to f32::MAX, shape wrappers with finite matrices, malformed-argument matrix; interval results checked for well-formedness; culprit op localised by prefix evaluation; witness shrinking; long-lived shape evaluators reused across tapes with different variable and point counts",
    "No panic, process death, spurious/missing error value or ill-formed interval on any case observed. Exploration over generated programs and finite inputs.",
    "Inputs and constants are finite by construction; after the interpreter panicked on a box the JIT interval evaluator is not run on that box (same Interval code behind callbacks that abort).",
    "DESIGN.md 3/C11",
)

CLAIMED["C17"] = (
    "runtime monitor with a grammar-driven generator that emits both the script text and the tree built through the Rust API (operators x operand forms, bindings, every shape constructor in map / positional-permutation / chained / two-tree / reduction forms, vec2->vec3 promotion, axis/plane coercions, comparison operators), compared structurally (Tree == Tree) after evaluation by the real rhai engine; first failing sub-construct localised; thorough tier: Miri interprets one script per call form through the engine (unsafe reflection that builds defaulted fields)",
    "Held on every generated script observed except the listed known findings (documented call forms that are rejected with an error; never a silently wrong tree). 428 required coverage members all seen per quick run. Exploration over the script grammar.",
    "Scripts stay within the engine's limits; number literals exactly representable; forms outside the documented domain are not generated.",
    "DESIGN.md 3/C17",
)

CLAIMED["C06"] = (
    "differential runtime monitor: random scenes (CSG with free variables, random expressions, bundled models) x image sizes x tile-size lists x affine views x z x pixel-perfect x backend x thread pools; rendered pixels compared with Context::eval at the documented sample position; interval-fill depth read from the image as coverage evidence; witness shrinking",
    "Held on every render/pixel observed (millions of pixels per quick run; share of renders mixing interval fills and evaluated pixels and with fills at >= 2 depths in evidence). Exploration.",
    "Pixels within the zero band 1e-5*max(1,|p|) or with NaN value are not judged in non-pixel-perfect mode; random expressions exclude rand/mix; up to 700 pixels sampled per image.",
    "DESIGN.md 3/C06",
)
CLAIMED["C13"] = (
    "runtime monitor: random remap_xyz / remap_affine sequences (nested, mixed, shared sub-trees under several frames, free variables) built through the builder API and recorded as a private spec DAG; Context::eval(import(tree)) compared with two independent substitution evaluators (recorded calls, public TreeOp); exact regime on dyadic rationals with zero tolerance (certified), general regime with 64*eps*T",
    "Held on every tree/point observed (60% of cases in the certified exact regime). Exploration.",
    "Samples near discontinuities / domain edges or with non-finite intermediates skipped and counted; hand-built RemapAffine{RemapAffine} nests are outside the property.",
    "DESIGN.md 3/C13",
)

CLAIMED["C15"] = (
    "runtime monitor with an independent bytecode interpreter written from the format documentation only (opcode table by name from iter_ops(), 0xFF immediates, load/store direction flags, marker words): programs compiled with budgets 3,4,8,16,255 (fresh and simplified tapes, very wide programs exhausting 255 registers), bytecode executed and compared bit-for-bit with VmPointEval; bounds of every register and memory index against the advertised counts; uninitialised reads",
    "Held on every bytecode/input observed (millions of bytecodes per quick run, every opcode and operand form >= 20 times). Exploration.",
    "Outputs into which a NaN was hashed by rand/mix are skipped; CPU interpreter only (no GPU shader).",
    "DESIGN.md 3/C15",
)

CLAIMED["C07"] = (
    "differential runtime monitor: random CSG scenes (incl. big solids and thin parts) x voxel grids (w,h,d unequal, not tile multiples) x tile-size lists x affine 4x4 views x backend x thread pools; every column compared with the brute-force heightmap computed by the interpreter on the unsimplified shape (cross-checked against Context::eval), normals against an f64 dual-number gradient; VoxelTileDecision hook counts occluded/full/empty/recurse/pixel tiles; witness shrinking; thorough tier adds a Miri stage (12 interpreter-only voxel renders with odd sizes and 1-3 tile levels: the unchecked scratch index)",
    "Held on every render/column observed (about a million columns per quick run). Exploration.",
    "Columns with a negative voxel between the grid top and one largest tile beyond it are outside the claim (stated); zero-band/NaN columns skipped; normals not judged at non-differentiable loci.",
    "DESIGN.md 3/C07",
)
CLAIMED["C19"] = (
    "runtime monitor: planted consistent linear systems (1..40 unknowns, stratified fixed/free layouts incl. none and all fixed, overdetermined, condition number <= 100 checked by SVD in f64), solved with the VM and JIT backends and a re-hashed parameter map; key set == free set, residual, backend agreement, bit-exact return of exact starting points, no panic/hang (child processes with a watchdog); 15% of systems carry idle parameters that no equation uses",
    "Held on every system observed (all 40 sizes, all free counts mod 3). Exploration.",
    "Accuracy is judged only for consistent systems with condition number <= 100 (stated); a solve exceeding the 90 s watchdog is inconclusive-by-crash-monitor.",
    "DESIGN.md 3/C19",
)

CLAIMED["C08"] = (
    "runtime monitor with independent mesh checks: random CSG scenes accepted only when the surface lies strictly inside the region, meshed at depth 1..6 with rigid+scale transforms, both backends, pools; directed-edge pairing, repeated indices, finite coordinates at every depth; per-component winding against an f64 dual-number gradient and signed volume against a Monte-Carlo estimate when the grid resolves the features; geometric classifier for non-manifold edges; crash monitor",
    "Held on every mesh observed except the listed known finding (ambiguous-face dual edge). Volume errors stay below 15% of the tolerance 0.4*h*area + 4 sigma. Exploration.",
    "Orientation and volume are judged only when the cell size is at most a third of the generator's smallest feature and (orientation) the component has substantial area; zero-area slivers are legal.",
    "DESIGN.md 3/C08",
)

CLAIMED["C10"] = (
    "runtime monitor: random history machine over a pool of very different functions per backend (long-lived evaluators of all four kinds, tapes built with storage recycled from arbitrary earlier tapes, simplify with reused workspace and storage recycled from other functions, recycle, RenderHandle simplify/recycle sequences with cache hits and misses); a shadow performs every call with brand-new objects; values, traces and simplified instruction streams compared bit-for-bit; guard-page allocator on during evaluator calls; crash monitor",
    "Held on every history/step observed (hundreds of thousands of steps per quick run, counts per step kind and reuse kind in evidence). Exploration over histories.",
    "Interval evaluations or simplifications that fail identically with reused and fresh objects are left to C11/C04.",
    "DESIGN.md 3/C10",
)

CLAIMED["C12"] = (
    "runtime monitor: generated expression programs with special constants and shared sub-trees built four ways (Context constructors, Tree operators + import, from_text listings, remap_xyz instances) and compared with the independent evaluation of the un-rewritten program under the finiteness premise; dedup, import/export round trips, Tree ==/hash consistency; deep chains/combs/remap nests (1e5..1e6) built, cloned, compared, hashed, imported, exported and dropped on a 256 KiB stack inside child processes (crash monitor); rewrite-rule coverage floors",
    "Held on every program/node observed; every deep step survived on the small stack. Exploration.",
    "A node is compared only if every reference value in its cone is finite; nodes whose cone feeds a zero into atan2/rand/mix/recip/div are skipped (sign of zero is excused by the statement).",
    "DESIGN.md 3/C12",
)
CLAIMED["C14"] = (
    "runtime monitor: single-output functions over subsets of X,Y,Z and up to ~40 free variables; every shape-level entry point (point, interval, bulk float, bulk gradient; plain, with transform, with vars, with var arrays) compared bit-for-bit with the same backend's raw function fed by identity through its own vars() map (transformed inputs from nalgebra or observed through the trivial shapes X,Y,Z), point results also against Context::eval with an explicit Var->value map; missing/extra variables; numbering and value after simplification",
    "Held on every function/entry point observed. Exploration.",
    "Programs exclude rand/mix; interval evaluations that panic are left to C11; soundness of the interval transform itself is C03's subject.",
    "DESIGN.md 3/C14",
)

CLAIMED["C09"] = (
    "runtime monitoring of schedules with hooks and ThreadSanitizer: each 2D/3D/mesh scene run without a pool and under pools of 1..16 threads with seeded yields/sleeps injected at the verif-hooks points, results compared bit for bit / as triangle multisets; cancellation before the call, at every poll k (fault enumeration through the CancelPoll hook), and from a timer thread; offline checker over the hook event log (exactly-once start/end per tile or task, no start after the worker's poll saw the cancel, None iff a poll saw the flag; distinct schedule signatures counted); shared tapes of all kinds evaluated from 16 threads; then the reduced workload under a -Zsanitizer=thread -Zbuild-std build with reports classified by fidget frames; thorough tier adds a Miri stage (pooled vs unpooled 2D/3D/mesh toys under 4 preemption schedules of Miri's data-race detector, CancelToken raw round trip)",
    "Held on every schedule observed (thousands of distinct tile/task-to-thread schedules per quick run, cancel enumerated at every poll for ~200 scenes, zero ThreadSanitizer reports). Exploration of schedules, not exhaustive.",
    "TSan does not see accesses made by JIT-generated code (they touch per-thread buffers; covered by the guard-page allocator in C02/C10); liveness is observed as bounded progress.",
    "DESIGN.md 3/C09",
)

# stages added in later rounds (appended to the technique text)
_EXTRA = {
    "C05": "; symbolic derivatives also taken in a long-lived context cleared between programs",
    "C06": "; the renderer's screen-to-model matrix cross-checked against the documented screen-to-world map; scenes at extreme scales (2^+-8..24)",
    "C07": "; perspective views with a quotient-rule normal reference; screen-to-model matrix cross-checked against the documentation; scenes at extreme scales",
    "C08": "; scenes away from the model origin, truncated fields, fields whose interval is NaN over large cells; empty meshes judged against the solid's depth",
    "C09": "; half of the scenes through non-identity views, geometry beyond the top of the grid, register-pressure scenes, pixel-perfect renders",
    "C10": "; endurance stage (one workspace / evaluator, gaps of 2^8+-1 and 2^16+-1 filler calls between two opposite simplifications); repeated identical calls",
    "C11": "; function-level evaluators reused across 1..4-output functions with equal sample counts; every binary operation with special immediates over boxes with zero / extreme bounds",
    "C13": "; extreme power-of-two scales; imports into a long-lived context cleared between cases",
    "C14": "; long-lived shape evaluators of all four kinds across dropped shapes; samples on the unit-weight locus of perspective rows; per-sample derivative seeds; the transformed box observed through the axis shapes must contain f64 images of its corners and inner points",
    "C15": "; simplification into storage recycled from a serialized tape",
    "C16": "; extreme scale factors (alone and nested), far nearly-on-axis rotation centres, re-import into a cleared context",
    "C18": "; drifting zoom histories that reach the ends of the scale band",
}
for _k, _v in _EXTRA.items():
    _t = list(CLAIMED[_k])
    _t[0] = _t[0] + _v
    CLAIMED[_k] = tuple(_t)

NOT_YET = {}

def main():
    props = [json.loads(l) for l in open(os.path.join(HERE, "properties.jsonl"))]
    try:
        hook_commits = subprocess.check_output(
            ["git", "-C", "/repo", "log", "--format=%H", "--grep=^hooks:"],
            text=True).split()
    except Exception:
        hook_commits = []
    checks = []
    na = []
    for p in props:
        pid = p["id"]
        if pid in CLAIMED:
            tech, text, note, ref = CLAIMED[pid]
            checks.append({
                "property_id": pid,
                "quick_cmd": f"./check {pid} quick",
                "thorough_cmd": f"./check {pid} thorough",
                "evidence_file": f"/verif/evidence/{pid}.json",
                "replay_cmd_template": f"./check {pid} --replay {{path}}",
                "engine": "fv",
                "level_claimed": {"category": "exploration", "text": text, "design_ref": ref},
                "level_note": note,
                "technique": tech,
            })
        else:
            na.append({"property_id": pid, "reason": NOT_YET.get(pid, "monitor not built yet in this revision of /verif (planned, see DESIGN.md section 3); not claimed until its check exists and is silent on the unchanged tree")})
    m = {
        "version": 1,
        "setup_cmd": "cd /verif/harness && CARGO_NET_OFFLINE=true cargo build --release --offline && RUSTFLAGS=-Zsanitizer=thread CARGO_NET_OFFLINE=true cargo +nightly build --release --offline -Zbuild-std --target x86_64-unknown-linux-gnu --target-dir target-tsan",
        "hooks": {
            "guard": "verif-hooks (cargo feature of fidget-core, forwarded by fidget-raster and fidget-mesh)",
            "enable": "harness/Cargo.toml depends on /repo/fidget-* by path with features = [\"verif-hooks\"]",
            "baseline_off_cmd": "cd /repo && cargo nextest run --workspace --no-fail-fast --tool-config-file pb:/w/lib/nextest.toml --profile pb --test-threads 8 --offline",
            "source_commits": hook_commits,
            "add_only": True,
        },
        "engines": [{
            "name": "fv",
            "path": "/verif/harness",
            "serves_properties": sorted(CLAIMED),
            "kind_free_text": "Rust harness linking the real fidget crates by path; seeded workload generators, independent reference models, crash-monitoring child processes, guard-page allocator, event-log checkers",
        }],
        "checks": checks,
        "not_applicable": na,
        "notes": "All checks rebuild the harness (and therefore /repo's working tree) before running. exit 2 = inconclusive (never a verdict).",
    }
    json.dump(m, open(os.path.join(HERE, "MANIFEST.json"), "w"), indent=1)
    print("claimed:", sorted(CLAIMED), "not claimed:", [x["property_id"] for x in na])

if __name__ == "__main__":
    main()
