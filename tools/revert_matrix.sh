#!/bin/bash
# For every "fix:" commit in /repo: revert it in a scratch worktree (never in
# /repo) and run the quick tier of the check(s) that found the defect.  A
# fixed entry in known_findings.json suppresses nothing, so every reverted
# fix must be reported again.   usage: tools/revert_matrix.sh [commit ...]
set -u
export MUT_SLOT=${MUT_SLOT:-rv}
mkdir -p /tmp/rv
declare -A PROPS=(
 [9f9ea40]="C20 C04" [875469d]="C04" [2c8abd0]="C01" [f1f370e]="C04" [ce0f2f0]="C05 C04"
 [e218883]="C04" [deedfe9]="C03" [99eda08]="C16" [6c92344]="C16" [de64be1]="C16" [1dd7942]="C18"
 [0fe0b0f]="C03 C11" [efafd93]="C03" [4d189ae]="C11" [61f7db4]="C17" [3bdb3b0]="C19" [1932c3b]="C07"
 [0d59ad9]="C08" [b320328]="C03"
)
list=${@:-${!PROPS[@]}}
for c in $list; do
  git -C /repo diff $c $c^ > /tmp/rv/$c.diff
  # make the reverse patch applicable to HEAD (later commits may touch the same file)
  wt=/tmp/wt_$MUT_SLOT
  [ -d $wt ] || git -C /repo worktree add -q --detach $wt HEAD
  git -C $wt checkout -q --detach $(git -C /repo rev-parse HEAD) && git -C $wt reset -q --hard
  if ! git -C $wt apply /tmp/rv/$c.diff 2>/dev/null; then
    if git -C $wt apply --3way /tmp/rv/$c.diff >/dev/null 2>&1 && ! git -C $wt diff HEAD | grep -q '^+<<<<<<<'; then
      git -C $wt reset -q; git -C $wt diff > /tmp/rv/$c.diff
    else
      echo "$c: REVERT DOES NOT APPLY CLEANLY"; git -C $wt reset -q --hard; continue
    fi
  fi
  git -C $wt reset -q --hard
  for p in ${PROPS[$c]}; do
    out=$(/verif/tools/mutant.sh $p --patch /tmp/rv/$c.diff 2>&1)
    n=$(echo "$out" | grep -c '^VIOLATION')
    sig=$(echo "$out" | grep '^VIOLATION' | head -1 | sed 's/.*\[\(.*\)\]$/\1/' | cut -c1-80)
    echo "$c ($(git -C /repo log -1 --format=%s $c | cut -c1-60)) reverted vs $p: violations=$n first=[$sig]"
  done
done
