#!/usr/bin/env python3
"""Writes the brief for a seeding sub-agent (property text + scratch worktree
only - nothing from /verif) to /tmp/seedprompts/<Cxx>.txt and creates the
worktree /tmp/seed_<Cxx>. usage: tools/seed_prompt.py <Cxx> <bugA> <bugB>"""
import json, sys, subprocess, os
TEMPLATE = '''You are helping test a verification framework by writing *realistic breaking changes* (seeded bugs) for the Rust library mkeeter/fidget (implicit-surface math expressions -> tapes -> interpreter VM / x86_64+aarch64 JIT -> renderers / mesher). You work ONLY inside your own scratch git worktree at {wt} (a worktree of the repository, already created, detached at the current HEAD). Do not touch /repo or /verif, and do not read anything under /verif. The machine is offline: always pass --offline to cargo (CARGO_NET_OFFLINE=true). 16 cores are shared with other jobs: use `-j 6` for cargo builds.

The property under attack (JSON as given to the verification authors):

{prop}

Your job: produce TWO different changes to the library source in {wt} (named bug{a} and bug{b}), each of which
 (a) BREAKS the property above (a user relying on it would get a wrong result / crash / ill-formed output),
 (b) still compiles, and the entire existing test suite still passes with it: `cd {wt} && cargo nextest run --workspace --no-fail-fast --offline --build-jobs 6 --test-threads 6` must report `564 passed` (the only pre-existing failure is fidget-wgpu's ssao_bias test, which fails on the unchanged tree too because there is no GPU; ignore it),
 (c) looks like something a real contributor could plausibly commit (an optimisation, refactor, "cleanup", resolved TODO, fast path, caching, deduplication...) - not sabotage with an obvious marker,
 (d) needs something SPECIFIC to manifest: a particular interleaving, an unusual input (special float values, degenerate/edge sizes, a particular structure of expression, a particular register pressure, a particular sequence of API calls, reuse of an object after another use, ...), or two cooperating sites that each look fine alone. NOT something that ordinary use would expose at once, and not something any simple smoke test would catch. Subtle is better. The two changes must differ in mechanism and preferably in file/subsystem. Prefer mechanisms/sites that are off the beaten path (do not just flip an operator in the most obvious function).
 For this round, prefer triggers that are a *history* or a *coincidence* rather than a single special number: a particular sequence of public API calls on long-lived objects (reuse after drop, reuse with a smaller/larger problem, recycle-then-reuse, clear-then-reuse, clone-then-mutate), a scheduling or work-splitting dependence (pool size vs problem size, chunk boundaries, work stealing), a structural coincidence (two things having equal length / equal hash / equal address / equal register), an interaction between two features that are each tested alone (e.g. a transform together with bound variables, simplification together with multiple outputs, spills together with function calls), or boundary sizes (0, 1, exactly the SIMD width, exactly a tile, one more than a tile).
 Only the x86_64 code paths can run on this machine (do not put a change in aarch64-only code).

For each change also write a DEMONSTRATION: one Rust integration-test file that passes on the unchanged tree and fails with the change applied. Its very first line must be a comment of exactly this shape:
// place at <path relative to the worktree root, e.g. fidget/tests/demo{a}.rs>; run: cargo test -p <crate> --test <name> --offline
(use demo{a}.rs for bug{a} and demo{b}.rs for bug{b}; the `fidget` umbrella crate's tests/ directory can use everything: fidget::context, fidget::vm, fidget::jit, fidget::render/raster, fidget::mesh, fidget::shapes, fidget::rhai, fidget::solver, fidget::gui etc. - check the umbrella crate's Cargo.toml/features and existing tests for how things are imported; use another crate's tests/ directory if that is easier). The demo must only use the public API, must test the property's observable behaviour (not internals), and must be deterministic.

Procedure for each change: make the edit in {wt}; run the demo (must fail); run the whole suite (must still show 564 passed); save the diff with `git -C {wt} diff > {out}/bugN.diff` (diff of library sources only - do NOT include the demo file in the diff); then `git -C {wt} checkout -- .` (keep the untracked demo file aside, copy it to {out}/demoN.rs) and confirm the demo PASSES on the unchanged tree. The diffs must apply independently to the unchanged tree with `git apply`.

Deliverables, all in the directory {out} (create it):
  bug{a}.diff, demo{a}.rs, bug{b}.diff, demo{b}.rs, and meta.json = a JSON list of two objects:
  {{"id": "bug{a}", "what": "<what was changed, where, and the cover story>", "needs_to_manifest": "<precisely what is needed for the wrong behaviour to show>", "files": ["<changed files>"]}}, and likewise for bug{b}.

When finished, leave the worktree clean of tracked changes (`git -C {wt} checkout -- .`), remove untracked demo files from it, and reply with a short report: for each bug, one paragraph on mechanism + what it needs to manifest + the exact commands you ran and their outcomes (demo unchanged: pass, demo changed: fail, suite changed: 564 passed). If you could only produce one confirmed change, deliver that one and say so.
'''
pid = sys.argv[1]
wt = f'/tmp/seed_{pid}'
out = f'/tmp/seedout/{pid}_r{sys.argv[2]}'
for l in open('/verif/properties.jsonl'):
    p = json.loads(l)
    if p['id'] == pid:
        break
if not os.path.isdir(wt):
    subprocess.check_call(['git','-C','/repo','worktree','add','-q','--detach',wt,'HEAD'])
os.makedirs(out, exist_ok=True)
open(f'/tmp/seedprompts/{pid}.txt','w').write(TEMPLATE.format(wt=wt,out=out,prop=json.dumps(p,indent=1),a=sys.argv[2],b=sys.argv[3]))
print(pid, 'ok')
