//! Tiny workloads for the Miri stages (no JIT: Miri cannot run mmap'd code).
//!
//! `voxel`: single-threaded 3D renders that reach the `get_unchecked_mut`
//!          site of the voxel renderer (C07).
//! `sched`: one small 2-thread 2D render, one 3D render and one mesh; run under
//!          `-Zmiri-many-seeds` every seed is a different preemption schedule
//!          (C09). Prints a checksum that must be identical for every seed.
//! `script`: Rhai scripts through `fidget_rhai::engine()`: every shape call
//!          form reaches the `unsafe` reflection code that materialises
//!          defaulted fields (`Type::build_from_default_fn`,
//!          `eval_default_fn`) and the `facet::Partial` builder (C17). The
//!          tree of each script is compared with the same shape built through
//!          the Rust API; the checksum is the value at three points.
use fidget_core::context::Tree;
use fidget_core::render::{CancelToken, ImageSize, ThreadPool, TileSizes, VoxelSize};
use fidget_core::vm::VmShape;

fn scene(k: u32) -> Tree {
    let (x, y, z) = Tree::axes();
    let s = (x.square() + y.square() + z.square()).sqrt() - 0.6;
    match k % 3 {
        0 => s,
        1 => {
            let b = (x.abs() - 0.4).max(y.abs() - 0.3).max(z.abs() - 0.5);
            s.min(b)
        }
        _ => {
            let c = ((x.clone() - 0.3).square() + (y.clone() + 0.2).square()).sqrt() - 0.35;
            s.max(-c)
        }
    }
}

fn fnv(acc: &mut u64, v: u64) {
    *acc ^= v;
    *acc = acc.wrapping_mul(0x100000001b3);
}

fn voxel(k: u32, pool: Option<&ThreadPool>) -> u64 {
    voxel_sized(k, pool, (7, 6, 8), &[4])
}

fn voxel_sized(k: u32, pool: Option<&ThreadPool>, size: (u32, u32, u32), tiles: &[usize]) -> u64 {
    let shape = VmShape::from(scene(k));
    let cfg = fidget_raster::voxel::RenderConfig {
        image_size: VoxelSize::new(size.0, size.1, size.2),
        world_to_model: nalgebra::Matrix4::identity(),
    };
    let ec = fidget_raster::voxel::EvalConfig {
        tile_sizes: Some(TileSizes::new(tiles).unwrap()),
        threads: pool,
        cancel: CancelToken::new(),
    };
    let img = fidget_raster::voxel::render(shape.try_into().unwrap(), &cfg, &ec).expect("not cancelled");
    let mut h = 0xcbf29ce484222325u64;
    for p in img.iter() {
        fnv(&mut h, p.depth as u64);
        for n in p.normal {
            fnv(&mut h, n.to_bits() as u64);
        }
    }
    h
}

fn pixel(k: u32, pool: Option<&ThreadPool>) -> u64 {
    let shape = VmShape::from(scene(k));
    let cfg = fidget_raster::pixel::RenderConfig {
        image_size: ImageSize::new(8, 8),
        world_to_model: nalgebra::Matrix3::identity(),
        pixel_perfect: false,
        z: 0.0,
    };
    let ec = fidget_raster::pixel::EvalConfig {
        tile_sizes: Some(TileSizes::new(&[4]).unwrap()),
        threads: pool,
        cancel: CancelToken::new(),
    };
    let img = fidget_raster::pixel::render(shape.try_into().unwrap(), &cfg, &ec).expect("not cancelled");
    let mut h = 0xcbf29ce484222325u64;
    for p in img.iter() {
        fnv(&mut h, p.inside() as u64);
    }
    h
}

fn mesh(k: u32, pool: Option<&ThreadPool>) -> u64 {
    let shape = VmShape::from(scene(k));
    let settings = fidget_mesh::Settings {
        depth: 2,
        world_to_model: nalgebra::Matrix4::identity(),
        threads: pool,
        cancel: CancelToken::new(),
    };
    let o = fidget_mesh::Octree::build(&shape.try_into().unwrap(), &settings).expect("not cancelled");
    let m = o.walk_dual();
    let mut tris: Vec<[[u32; 3]; 3]> = m
        .triangles
        .iter()
        .map(|t| {
            let k = |i: usize| {
                let v = m.vertices[i];
                [v.x.to_bits(), v.y.to_bits(), v.z.to_bits()]
            };
            let ks = [k(t.x), k(t.y), k(t.z)];
            let r = (0..3).min_by_key(|&i| ks[i]).unwrap();
            [ks[r], ks[(r + 1) % 3], ks[(r + 2) % 3]]
        })
        .collect();
    tris.sort_unstable();
    let mut h = 0xcbf29ce484222325u64;
    for t in tris {
        for v in t {
            for c in v {
                fnv(&mut h, c as u64);
            }
        }
    }
    h
}

fn main() {
    let mode = std::env::args().nth(1).unwrap_or_else(|| "voxel".into());
    match mode.as_str() {
        "voxel" => {
            // sizes that are not multiples of the tile size, one-voxel-thin
            // images and a two-level tile hierarchy: the unchecked index in
            // the voxel renderer is computed from all of these
            let cfgs: [((u32, u32, u32), &[usize]); 5] = [
                ((7, 6, 8), &[4]),
                ((5, 9, 3), &[4, 2]),
                ((1, 1, 9), &[2]),
                ((8, 8, 8), &[8, 4]),
                ((3, 10, 1), &[4]),
            ];
            for (k, (size, tiles)) in cfgs.iter().enumerate() {
                println!("CHECKSUM voxel{k} {:016x}", voxel_sized(k as u32, None, *size, tiles));
            }
            // plus sizes and tile hierarchies drawn from the seed (argv[2])
            let mut x: u64 = std::env::args().nth(2).and_then(|s| s.parse().ok()).unwrap_or(1);
            let mut next = |m: u64| {
                x = x.wrapping_mul(6364136223846793005).wrapping_add(1442695040888963407);
                (x >> 33) % m
            };
            let tile_sets: [&[usize]; 5] = [&[4], &[4, 2], &[8, 4], &[2], &[8, 4, 2]];
            for k in 0..7 {
                let size = (1 + next(10) as u32, 1 + next(10) as u32, 1 + next(10) as u32);
                let tiles = tile_sets[next(5) as usize];
                println!(
                    "CHECKSUM voxel_r{k}_{}x{}x{}_t{} {:016x}",
                    size.0, size.1, size.2, tiles.len(),
                    voxel_sized(next(3) as u32, None, size, tiles)
                );
            }
        }
        "sched" => {
            let pool = ThreadPool::Custom(rayon::ThreadPoolBuilder::new().num_threads(2).build().unwrap());
            // reference without a pool, then with the pool: must agree
            for (name, f) in [("pixel", pixel as fn(u32, Option<&ThreadPool>) -> u64), ("voxel", voxel), ("mesh", mesh)] {
                let a = f(1, None);
                let b = f(1, Some(&pool));
                if a != b {
                    println!("MISMATCH {name} pooled {b:016x} unpooled {a:016x}");
                    std::process::exit(3);
                }
                println!("CHECKSUM {name} {a:016x}");
            }
            // cancel token raw round trip (the only other unsafe in
            // fidget-core): the token handed back must be the same flag
            let t = CancelToken::new();
            let raw = t.clone().into_raw();
            let u = unsafe { CancelToken::from_raw(raw) };
            t.cancel();
            println!("CHECKSUM cancel_roundtrip {:016x}", u.is_cancelled() as u64);
        }
        "script" => script_mode(),
        _ => std::process::exit(2),
    }
}

fn tree_sum(t: &Tree) -> u64 {
    let mut ctx = fidget_core::Context::new();
    let n = ctx.import(t);
    let mut h = 0xcbf29ce484222325u64;
    for (x, y, z) in [(0.1f32, 0.2, 0.3), (-0.7, 0.4, 1.5), (2.0, -1.0, 0.25)] {
        let v = ctx.eval_xyz(n, x, y, z).expect("eval");
        fnv(&mut h, (v as f32).to_bits() as u64);
    }
    h
}

fn script_mode() {
    use fidget_shapes::types::{Vec2, Vec3};
    use fidget_shapes::*;
    let (x, y, _z) = Tree::axes();
    let circ = |cx: f32, cy: f32, r: f32| Tree::from(Circle { center: Vec2::new(cx, cy), radius: r });
    let sph = |c: (f32, f32, f32), r: f32| Tree::from(Sphere { center: Vec3::new(c.0, c.1, c.2), radius: r });
    // (name, script, the same shape through the Rust API)
    let cases: Vec<(&str, &str, Tree)> = vec![
        ("map_full", "circle(#{ center: vec2(1.0, 2.0), radius: 3.0 })", circ(1.0, 2.0, 3.0)),
        ("map_default_radius", "circle(#{ center: [1, 2] })", circ(1.0, 2.0, 1.0)),
        ("map_default_center", "sphere(#{ radius: 3 })", sph((0.0, 0.0, 0.0), 3.0)),
        ("unique_any_order", "circle(3, [1, 2])", circ(1.0, 2.0, 3.0)),
        ("unique_default", "circle([1, 2])", circ(1.0, 2.0, 1.0)),
        ("unique_sphere", "sphere([1, 2, 4], 0.5)", sph((1.0, 2.0, 4.0), 0.5)),
        (
            "map_vec2_to_vec3_offset",
            "move(#{ shape: circle(#{ center: [1, 2], radius: 3 }), offset: [1, 1] })",
            Tree::from(Move { shape: circ(1.0, 2.0, 3.0), offset: Vec3::new(1.0, 1.0, 0.0) }),
        ),
        (
            "map_vec2_to_vec3_scale",
            "scale(#{ shape: sphere(#{ radius: 0.5 }), scale: [2, 4] })",
            Tree::from(Scale { shape: sph((0.0, 0.0, 0.0), 0.5), scale: Vec3::new(2.0, 4.0, 1.0) }),
        ),
        (
            "chain_move",
            "sphere(#{ radius: 0.5 }).move([1, 2, 3])",
            Tree::from(Move { shape: sph((0.0, 0.0, 0.0), 0.5), offset: Vec3::new(1.0, 2.0, 3.0) }),
        ),
        (
            "chain_map_omit_default",
            "circle([0, 0], 2).scale(#{ scale: [2, 2, 2] })",
            Tree::from(Scale { shape: circ(0.0, 0.0, 2.0), scale: Vec3::new(2.0, 2.0, 2.0) }),
        ),
        (
            "reduce_union",
            "union([circle([1, 2], 3), sphere(#{ radius: 2 }), x + y])",
            Tree::from(Union { input: vec![circ(1.0, 2.0, 3.0), sph((0.0, 0.0, 0.0), 2.0), x.clone() + y.clone()] }),
        ),
        (
            "two_tree_difference",
            "difference(sphere(#{ radius: 2 }), circle([0, 0]))",
            Tree::from(Difference { shape: sph((0.0, 0.0, 0.0), 2.0), cutout: circ(0.0, 0.0, 1.0) }),
        ),
    ];
    let mut bad = false;
    for (name, script, want) in cases {
        let engine = fidget_rhai::engine();
        match engine.eval::<Tree>(script) {
            Ok(got) => {
                let (a, b) = (tree_sum(&got), tree_sum(&want));
                if got != want || a != b {
                    println!("MISMATCH script_{name} script {a:016x} rust {b:016x}");
                    bad = true;
                } else {
                    println!("CHECKSUM script_{name} {a:016x}");
                }
            }
            Err(e) => {
                println!("MISMATCH script_{name} error {e}");
                bad = true;
            }
        }
    }
    if bad {
        std::process::exit(3);
    }
}
